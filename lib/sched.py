"""Shared machinery of the scheduler / history checks (C01 C04 C05 C06 C18 C19 and the World ones):
scenario generation, running the history harness, parsing its reports, replaying each
invocation through the verified acceptor (extracted), and python monitors on the
implementation's own trace."""
import random

from common import *

STATE_TOK = {"Unknown": "U", "Want": "W", "Ready": "R", "Queued": "Q", "Running": "X", "Done": "D", "Failed": "F"}


def hx(s):
    if isinstance(s, str):
        s = s.encode()
    return s.hex() if s else "-"


# ----------------------------------------------------------------------------------------
# graphs as reported by the real loader


class Graph:
    def __init__(self, toks):
        # the trailing `L loc...` (the `file:line` of every step) is not part of what the scheduler model reads
        self.tokens = toks[:toks.index("L")] if "L" in toks else toks
        it = iter(toks)
        nxt = lambda: next(it)
        assert nxt() == "G"
        nb = nxt()
        if nb == "err":
            self.error = unhexs(nxt()).decode("utf-8", "replace")
            self.builds, self.files, self.pools, self.defaults = [], [], [], []
            return
        self.error = None
        nb = int(nb)
        nf = int(nxt())
        self.builds = []
        for _ in range(nb):
            assert nxt() == "B"
            nins = int(nxt())
            ins = [int(nxt()) for _ in range(nins)]
            e, i, o = int(nxt()), int(nxt()), int(nxt())
            nouts = int(nxt())
            outs = [int(nxt()) for _ in range(nouts)]
            phony = nxt() == "1"
            p = nxt()
            c = nxt()
            r = nxt()
            rsp = None
            if r != "n":
                a, _, b2 = r[1:].partition(":")
                rsp = (unhexs(a), unhexs(b2))
            self.builds.append({"ins": ins, "explicit": e, "implicit": i, "order_only": o, "outs": outs,
                                "phony": phony, "pool": None if p == "n" else unhexs(p[1:]).decode(),
                                "cmd": None if c == "n" else unhexs(c[1:]), "rsp": rsp})
        self.files = []
        for _ in range(nf):
            assert nxt() == "F"
            name = unhexs(nxt()).decode("utf-8", "replace")
            inp = int(nxt())
            nd = int(nxt())
            deps = [int(nxt()) for _ in range(nd)]
            self.files.append({"name": name, "input": None if inp < 0 else inp, "dependents": deps})
        assert nxt() == "P"
        self.pools = [(unhexs(nxt()).decode(), int(nxt())) for _ in range(int(nxt()))]
        assert nxt() == "D"
        self.defaults = [int(nxt()) for _ in range(int(nxt()))]
        rest = list(it)
        self.locs = [unhexs(x) for x in rest[1:]] if rest and rest[0] == "L" else []

    def ordering_ins(self, b):
        bd = self.builds[b]
        return bd["ins"][: bd["explicit"] + bd["implicit"] + bd["order_only"]]

    def all_ins(self, b):
        return self.builds[b]["ins"]

    def ordering_producers(self, b):
        return [self.files[f]["input"] for f in self.ordering_ins(b) if self.files[f]["input"] is not None]

    def any_producers(self, b):
        return [self.files[f]["input"] for f in self.all_ins(b) if self.files[f]["input"] is not None]

    def transitive(self, b, fn):
        seen, stack = set(), list(fn(b))
        while stack:
            x = stack.pop()
            if x in seen:
                continue
            seen.add(x)
            stack.extend(fn(x))
        return seen

    def pool_depths(self):
        d = {"": 0, "console": 1}
        for n, k in self.pools:
            d[n] = k
        return d

    def file_id(self, name):
        for i, f in enumerate(self.files):
            if f["name"] == name:
                return i
        return None


# ----------------------------------------------------------------------------------------
# reports


class Inv:
    def __init__(self, text):
        kv = {}
        for tok in text.split(" ")[1:]:
            k, _, v = tok.partition("=")
            kv[k] = v
        self.raw = text
        self.result = kv.get("result", "")
        self.started = [int(x) for x in kv.get("started", "").split(",") if x]
        # `-d explain` messages (log_<hex>) are taken out of the trace: (step, [messages]) per verdict, in order
        self.trace, self.explained, pend = [], [], []
        for e in kv.get("trace", "").split(","):
            if not e:
                continue
            if e.startswith("log_"):
                pend.append(unhexs(e[4:]))
                continue
            if e.startswith("dirty_"):
                self.explained.append((int(e.split("_")[1]), pend))
                pend = []
            self.trace.append(e)
        self.stray_logs = pend
        self.graphs = [Graph(g.split("_")) for g in kv.get("graphs", "").split("|") if g]
        self.files = {}
        for ent in kv.get("files", "").split(","):
            if ent:
                n, _, rest = ent.partition("=")
                mt, _, dig = rest.partition(":")
                self.files[unhexs(n).decode("utf-8", "replace")] = (int(mt), dig)
        self.db = unhexs(kv.get("db", "-") or "-")
        self.db0 = None if kv.get("db0", "none") == "none" else unhexs(kv.get("db0") or "-")
        self.files0 = {}
        for ent in kv.get("files0", "").split(","):
            if ent:
                n, _, rest = ent.partition("=")
                mt, _, dig = rest.partition(":")
                self.files0[unhexs(n).decode("utf-8", "replace")] = (int(mt), dig)
        self.printed = []
        for ent in kv.get("printed", "").split(","):
            if ent:
                i, t, o = ent.split(":")
                self.printed.append((int(i), int(t), unhexs(o)))

    def phases(self):
        """split the trace: list of dict(kind, want=[...], run=[...] or None, reloaded)"""
        phases = []
        cur = None
        reloaded = False
        for e in self.trace:
            if e in ("regen_begin", "main_begin"):
                cur = {"kind": "regen" if e == "regen_begin" else "main", "want": [], "run": None, "reloaded": reloaded}
                phases.append(cur)
            elif e == "reload":
                reloaded = True
            elif e == "run_begin":
                cur["run"] = []
            elif e.startswith("write_") or e.startswith("deps_"):
                if cur is not None:
                    cur.setdefault("aux", []).append((len(cur["run"]) if cur["run"] is not None else -1, e))
            elif cur is not None:
                (cur["run"] if cur["run"] is not None else cur["want"]).append(e)
        return phases


def parse_report(line):
    return [Inv(t) for t in line.split(" ;; ") if t.startswith("INV")]


def event_tokens(e):
    p = e.split("_")
    if p[0] == "set":
        return "s %s %s %s" % (p[1], STATE_TOK[p[2]], STATE_TOK[p[3]])
    if p[0] == "pop":
        return "p %s" % p[2]
    if p[0] == "dirty":
        return "v %s %s" % (p[1], "c" if p[2] == "false" else ("d" if p[2] == "true" else "e"))
    if p[0] == "start":
        return "st %s" % p[1]
    if p[0] == "finish":
        return "f %s %s" % (p[1], p[2])
    if p[0] == "record":
        return "r %s" % p[1]
    if p[0] == "quiesce":
        return "q %s" % p[1]
    if p[0] == "update":
        return "u " + " ".join(p[1:7])
    raise ValueError(e)


def acceptor_line(inv, j, k, adopt, phase_targets):
    """driver 'inv' input for one invocation.  phase_targets: list (per phase) of file id lists."""
    out = []
    phs = inv.phases()
    if getattr(inv, "drop_main", False):
        phs = [ph for ph in phs if ph["kind"] != "main"]
    for idx, ph in enumerate(phs):
        g = inv.graphs[-1] if ph["reloaded"] else inv.graphs[0]
        reuse = 1 if (idx > 0 and not ph["reloaded"]) else 0
        want = []
        for e in ph["want"]:
            p = e.split("_")
            if p[0] != "set":
                return None
            want.append("%s %s" % (p[1], STATE_TOK[p[3]]))
        evs = []
        if ph["run"] is not None:
            evs = [event_tokens(e) for e in ph["run"]]
            last = idx == len(phs) - 1
            if not last or getattr(inv, "drop_main", False):
                evs.append("ret 1")
            elif inv.result.startswith("ok:"):
                evs.append("ret 1")
            elif inv.result == "fail":
                evs.append("ret 0")
            elif inv.result.startswith("err:"):
                evs.append("ret e")
        t = phase_targets[idx]
        if isinstance(t, tuple):
            tsec = "TN %d %s %d" % (len(t[1]), " ".join(hx(n) for n in t[1]), -1 if t[2] is None else t[2])
        else:
            tsec = "T %d %s" % (len(t), " ".join(map(str, t)))
        out.append("PHASE %s C %d %d %d S %d %s W %d %s E %d %s" % (
            " ".join(g.tokens), j, 1 if adopt else 0, -1 if k is None else k, reuse,
            tsec, len(want), " ".join(want), len(evs), " ".join(evs)))
    return " ".join(out)


def select_line(g, manifest_id, adopt, names):
    return "%s M %d A %d N %d %s" % (" ".join(g.tokens), -1 if manifest_id is None else manifest_id,
                                     1 if adopt else 0, len(names), " ".join(hx(n) for n in names))


# ----------------------------------------------------------------------------------------
# scenario generation


def gen_graph(rng, nmax=10, cyclic=False, pools=True, validations=True, phony=True, wide=None):
    """returns (manifest_text, info) ; info: builds list with outs/ins names, sources, pools.
    wide: many mutually independent steps (several become ready at once, pools and -j under pressure)"""
    if wide is None:
        wide = rng.random() < 0.3
    n = rng.randint(1, nmax) if not wide else rng.randint(4, max(6, nmax + 4))
    nsrc = rng.randint(1, 4)
    sources = ["s%d" % i for i in range(nsrc)]
    pool_decl = []
    if pools and rng.random() < 0.6:
        for i in range(rng.randint(1, 3)):
            pool_decl.append(("p%d" % i, rng.choice([0, 1, 1, 2, 3])))
        if rng.random() < 0.15:
            pool_decl.append(("console", rng.choice([1, 2])))
    builds = []
    all_outs = []
    for i in range(n):
        outs = ["o%d" % i] + (["o%d_%d" % (i, k) for k in range(rng.choice([0, 0, 0, 1, 2]))])
        builds.append({"outs": outs, "explicit_outs": rng.randint(1, len(outs))})
        all_outs.append(outs)
    for i, b in enumerate(builds):
        cand = [o for k in range(i) for o in all_outs[k]]
        if wide and rng.random() < 0.8:
            cand = []
        if cyclic and rng.random() < 0.25:
            cand = [o for k in range(n) for o in all_outs[k]]

        def pick(maxn):
            pool_ = sources + cand * 2
            return [rng.choice(pool_) for _ in range(rng.randint(0, maxn))]

        b["explicit"] = pick(2) or [rng.choice(sources)]
        b["implicit"] = pick(2) if rng.random() < 0.4 else []
        b["order_only"] = pick(2) if rng.random() < 0.3 else []
        b["validation"] = []
        if validations and rng.random() < 0.25:
            allo = [o for k in range(n) for o in all_outs[k]]
            b["validation"] = [rng.choice(allo) for _ in range(rng.randint(1, 2))]
        b["phony"] = phony and rng.random() < 0.15
        b["pool"] = None
        if pool_decl and rng.random() < (0.7 if wide else 0.5) and not b["phony"]:
            b["pool"] = rng.choice(pool_decl)[0]
        elif rng.random() < 0.05 and not b["phony"]:
            b["pool"] = rng.choice(["console", "nosuchpool"])
        b["opts"] = ""
        b["empty_cmd"] = (not b["phony"]) and rng.random() < 0.05       # a command that expands to nothing is still a command
    lines = ["rule r", "  command = cmd $out $opts"]
    if any(b["empty_cmd"] for b in builds):
        lines += ["rule e", "  command = $nothing_bound"]
    for name, depth in pool_decl:
        lines += ["pool %s" % name] + (["  depth = %d" % depth] if not (depth == 0 and name == "p1") else [])    # p1: no depth line = unbounded
    for b in builds:
        outs = " ".join(b["outs"][: b["explicit_outs"]])
        if len(b["outs"]) > b["explicit_outs"]:
            outs += " | " + " ".join(b["outs"][b["explicit_outs"]:])
        l = "build %s: %s %s" % (outs, "phony" if b["phony"] else ("e" if b["empty_cmd"] else "r"), " ".join(b["explicit"]))
        if b["implicit"]:
            l += " | " + " ".join(b["implicit"])
        if b["order_only"]:
            l += " || " + " ".join(b["order_only"])
        if b["validation"]:
            l += " |@ " + " ".join(b["validation"])
        lines.append(l)
        if b["pool"]:
            lines.append("  pool = %s" % b["pool"])
        if b["opts"]:
            lines.append("  opts = %s" % b["opts"])
    if rng.random() < 0.3:
        lines.append("default " + " ".join(rng.choice(all_outs)[0] for _ in range(rng.randint(1, 2))))
    return "\n".join(lines) + "\n", {"builds": builds, "sources": sources, "pools": pool_decl, "all_outs": all_outs}


def gen_validation_failure(rng, **kw):
    """steps that *validate* (|@) the output of a step whose command fails, while they run or wait in a bounded pool and -k leaves
    room: a validation edge is not a dependency - the validating steps and everything behind them must still be built (C05),
    and the pool keeps counting them while they run (C04)"""
    pools = [("p0", rng.choice([1, 1, 2]))]
    lines = ["rule r", "  command = cmd $out $opts", "pool p0", "  depth = %d" % pools[0][1]]
    nx = rng.randint(1, 2)
    for i in range(nx):
        lines += ["build x%d: r xs%d" % (i, i), "  opts = fail"]
    nmem = rng.randint(2, 5)
    for m in range(nmem):
        real = rng.choice(["ms%d" % m, "slow", "ms%d slow" % m])
        lines.append("build y%d: r %s |@ x%d" % (m, real, rng.randrange(nx)))
        if rng.random() < 0.8:
            lines.append("  pool = p0")
        if rng.random() < 0.5:
            lines.append("build z%d: r y%d" % (m, m))
    lines.append("build slow: r slows")
    text = "\n".join(lines) + "\n"
    steps = ["file %s %s" % (hx("build.ninja"), hx(text))]
    for n_ in ["xs%d" % i for i in range(nx)] + ["ms%d" % m for m in range(nmem)] + ["slows"]:
        steps.append("file %s %s" % (hx(n_), hx("v0")))
    invs = []
    for r in range(rng.randint(1, 2)):
        j = rng.choice([2, 3, 4])
        k = rng.choice([None, 3, 5, 10])
        targets = [] if rng.random() < 0.6 else ["y%d" % rng.randrange(nmem), "z0" if "build z0" in text else "y0"]
        steps.append(inv_cmd(j, k, False, targets, gen_script(rng, rng.randint(2, 14), fail_rate=0, interrupt_rate=0)))
        invs.append({"j": j, "k": k, "adopt": False, "targets": targets})
        steps.append("touch %s" % hx("slows"))
    return "\n".join(steps), invs, {"pools": pools}


def gen_group_interrupt(rng, **kw):
    """ctrl-c reaches the whole process group: every running command ends interrupted (outputs possibly half written).  Nothing
    that was interrupted may be recorded; the next invocation rebuilds exactly those steps"""
    n = rng.randint(2, 5)
    lines = ["rule r", "  command = cmd $out $opts"]
    for i in range(n):
        lines.append("build o%d: r s%d" % (i, i))
        if rng.random() < 0.5:
            lines.append("  opts = partial")                 # the command has already created its output when it is killed
    if rng.random() < 0.5:
        lines.append("build all: r " + " ".join("o%d" % i for i in range(n)))
    text = "\n".join(lines) + "\n"
    steps = ["file %s %s" % (hx("build.ninja"), hx(text))] + ["file %s %s" % (hx("s%d" % i), hx("v0")) for i in range(n)]
    j = rng.randint(2, 4)
    k = rng.choice([None, None, 3])
    first_ok = rng.randint(0, 1)
    script = ",".join(["%d:0" % rng.randint(0, 3)] * first_ok + ["%d:2" % rng.randint(0, 3) for _ in range(j + 1)])
    invs = []
    steps.append(inv_cmd(j, k, False, [], script))
    invs.append({"j": j, "k": k, "adopt": False, "targets": []})
    j2 = rng.randint(1, 3)
    steps.append(inv_cmd(j2, None, False, [], "-"))
    invs.append({"j": j2, "k": None, "adopt": False, "targets": []})
    return "\n".join(steps), invs, {"pools": []}


def gen_pool_stress(rng, **kw):
    """gates -> pool members: members become ready at different moments of the build, some of them up to date, while
    other members of the same bounded pool run or wait"""
    ngates = rng.randint(2, 3)
    nmem = rng.randint(4, 8)
    pools = [("p%d" % i, rng.choice([1, 1, 2])) for i in range(rng.randint(1, 2))]
    lines = ["rule r", "  command = cmd $out $opts"]
    if rng.random() < 0.1:
        # a manifest with hundreds of pools (one per directory, say); the members use late ones
        many = [("q%d" % i, 1) for i in range(300)]
        for n_, d_ in many:
            lines += ["pool %s" % n_, "  depth = %d" % d_]
        pools = [many[i] for i in rng.sample(range(250, 300), 2)]
    for n_, d_ in pools:
        if n_.startswith("q"):
            continue
        lines += ["pool %s" % n_, "  depth = %d" % d_]
    for g in range(ngates):
        lines.append("build g%d: r gs%d" % (g, g))
    members = []
    for m in range(nmem):
        g = rng.randrange(ngates)
        oo = rng.random() < 0.7
        pool = rng.choice(pools)[0] if rng.random() < 0.85 else None
        phony = rng.random() < 0.1
        lines.append("build m%d: %s ms%d %s g%d" % (m, "phony" if phony else "r", m, "||" if oo else "", g))
        if pool:
            lines.append("  pool = %s" % pool)
        members.append("m%d" % m)
    text = "\n".join(lines) + "\n"
    steps = ["file %s %s" % (hx("build.ninja"), hx(text))]
    for g in range(ngates):
        steps.append("file %s %s" % (hx("gs%d" % g), hx("v0")))
    for m in range(nmem):
        steps.append("file %s %s" % (hx("ms%d" % m), hx("v0")))
    invs = []
    j = rng.choice([2, 3, 4])
    steps.append(inv_cmd(j, None, False, [], gen_script(rng, rng.randint(0, 10), fail_rate=0)))
    invs.append({"j": j, "k": None, "adopt": False, "targets": []})
    for r in range(rng.randint(1, 2)):
        for g in range(ngates):
            if rng.random() < 0.7:
                steps.append("touch %s" % hx("gs%d" % g))
        for m in members:
            if rng.random() < 0.4:
                steps.append("del %s" % hx(m))
        j = rng.choice([2, 3, 4])
        k = rng.choice([None, None, 2])
        steps.append(inv_cmd(j, k, False, [], gen_script(rng, rng.randint(4, 16), fail_rate=rng.choice([0, 0, 0.15]))))
        invs.append({"j": j, "k": k, "adopt": False, "targets": []})
    return "\n".join(steps), invs, {"pools": pools}


def gen_script(rng, n, fail_rate=0.15, interrupt_rate=0.01):
    s = []
    for _ in range(n):
        r = rng.random()
        t = 2 if r < interrupt_rate else (1 if r < interrupt_rate + fail_rate else 0)
        s.append("%d:%d" % (rng.randint(0, 5), t))
    return ",".join(s) if s else "-"


def inv_cmd(j, k, adopt, targets, script, manifest=None):
    l = "inv %d %s %d %s %s %s" % (j, "-" if k is None else k, 1 if adopt else 0,
                                   hx(manifest) if manifest else "-",
                                   ",".join(hx(t) for t in targets) if targets else "-", script or "-")
    # half of the invocations (chosen by a checksum of the line, so that a scenario replays exactly) run with `-d explain`
    import zlib
    return l + " x" if zlib.crc32(l.encode()) & 1 else l


def inv_explains(line):
    return line.startswith("inv ") and line.endswith(" x")


def gen_sched_scenario(rng, **kw):
    text, info = gen_graph(rng, **kw)
    steps = ["file %s %s" % (hx("build.ninja"), hx(text))]
    for s in info["sources"]:
        steps.append("file %s %s" % (hx(s), hx("v0")))
    invs = []
    outs_flat = [o for os_ in info["all_outs"] for o in os_]
    ninv = rng.choice([1, 2, 2, 3])
    for r in range(ninv):
        if r > 0:
            for _ in range(rng.randint(0, 3)):
                c = rng.random()
                if c < 0.5:
                    steps.append("touch %s" % hx(rng.choice(info["sources"])))
                elif c < 0.8:
                    steps.append("del %s" % hx(rng.choice(outs_flat)))
                else:
                    steps.append("file %s %s" % (hx(rng.choice(info["sources"])), hx("v%d" % rng.randint(1, 9))))
        j = rng.choice([1, 1, 2, 3, 4])
        k = rng.choice([None, None, 1, 1, 2, 3])
        if rng.random() < 0.5:
            targets = []
        else:
            targets = [rng.choice(outs_flat + info["sources"]) for _ in range(rng.randint(1, 3))]
            if rng.random() < 0.1:
                targets.append("nosuchfile")
            targets = [t if rng.random() < 0.8 else "./" + t for t in targets]
        script = gen_script(rng, rng.randint(0, 14), fail_rate=rng.choice([0, 0, 0.15, 0.4]))
        adopt = rng.random() < 0.08          # `-t restat`: out-of-date steps are marked up to date, no command runs
        steps.append(inv_cmd(j, k, adopt, targets, script))
        invs.append({"j": j, "k": k, "adopt": adopt, "targets": targets})
    return "\n".join(steps), invs, info


def gen_sched_or_regen(rng, **kw):
    """mostly scheduler scenarios; some pool-stress histories; every fourth one a history whose manifest is regenerated (and reloaded) mid-invocation,
    with pools, defaults, -f spellings and structural edits (from world.gen_history)"""
    if rng.random() < 0.25:
        import world
        steps, invs, info = world.gen_history(rng, with_regen=rng.choice([True, True, "include"]), with_pools=True, nmax=7)
        return "\n".join(steps), [{k: v for k, v in m.items() if k != "files"} for m in invs], info
    if rng.random() < 0.3:
        return gen_pool_stress(rng)
    if rng.random() < 0.12:
        return gen_validation_failure(rng)
    if rng.random() < 0.06:
        return gen_group_interrupt(rng)
    if rng.random() < 0.06:
        # a step whose *reported* dependency is another step's output with no declared path between them, recorded by an earlier
        # invocation: dependencies learned from depfiles impose no ordering
        import world
        steps, invs, info = world.gen_history_gendep(rng)
        return "\n".join(steps), [{k: v for k, v in m.items() if k != "files"} for m in invs], info
    return gen_sched_scenario(rng, **kw)


# ----------------------------------------------------------------------------------------
# running


def run_histories(har, scenarios):
    """scenarios: list of scenario texts -> list of lists of Inv"""
    lines = [s.encode().hex() for s in scenarios]
    res = run_lines_sharded([har, "hist"], lines, shards=NCPU)
    return [parse_report(r) if not r.startswith("abort") and not r.startswith("panic") else r for r in res]


def replay_invocations(drv, items):
    """items: list of (inv, j, k, adopt, target_names).  Returns list of dict(select=..., accept=...)."""
    sel_lines = []
    for inv, j, k, adopt, names in items:
        phs = inv.phases()
        g = inv.graphs[-1] if (phs and phs[-1]["reloaded"]) else inv.graphs[0]
        if g.error:
            sel_lines.append("G 0 0 P 0 D 0 M -1 A 0 N 0")
            continue
        sel_lines.append(select_line(g, g.file_id("build.ninja"), adopt, names))
    sels = run_lines_sharded([drv, "select"], sel_lines)
    acc_lines = []
    for (inv, j, k, adopt, names), sel in zip(items, sels):
        phs = inv.phases()
        pts = []
        if not sel.startswith("ok"):
            phs_main = [ph for ph in phs if ph["kind"] == "main"]
            if any(ph["run"] is not None for ph in phs_main):
                inv.main_ran_despite_select_error = True
        for ph in phs:
            g = inv.graphs[-1] if ph["reloaded"] else inv.graphs[0]
            if ph["kind"] == "regen":
                m = g.file_id("build.ninja")
                pts.append([m] if m is not None else [])
            else:
                pts.append(("names", names, g.file_id("build.ninja")))
        l = acceptor_line(inv, j, k, adopt, pts)
        acc_lines.append(l if l else "PHASE")
    accs = run_lines_sharded([drv, "inv"], acc_lines)
    return [{"select": s, "accept": a, "line": l} for s, a, l in zip(sels, accs, acc_lines)]


def check_acceptance(run, prop, scen, idx, inv, info, rep):
    """Compare the acceptor's verdict with what the implementation did.  Returns True if accepted."""
    res = inv.result
    sel, acc = rep["select"], rep["accept"]
    where = {"scenario": scen, "invocation": idx, "result": res, "acceptor": acc, "select": sel}
    if res.startswith("panic:"):
        run.report_failure(None, "invocation panicked: %s" % unhexs(res[6:]).decode("utf-8", "replace")[:200], where)
        return False
    phs = inv.phases()
    parts = [p.strip() for p in acc.split("|")] if acc else []
    ok = True
    if sel.startswith("err ") and getattr(inv, "main_ran_despite_select_error", False):
        run.report_failure(None, "the build ran although a requested target is unknown", where)
    for i, p in enumerate(parts):
        if p.startswith("accept"):
            continue
        if p.startswith("wanterr"):
            msg = unhexs(p.split()[1])
            got = unhexs(res[4:]) if res.startswith("err:") else None
            if msg.startswith(b"unknown path requested: ") and got is not None and got.startswith(b"unknown path requested: "):
                continue   # the implementation prints the name with {:?} quoting
            if not (res.startswith("err:") and got == msg):
                run.tie("correspondence want traversal (cycle error)", where)
                ok = False
            continue
        run.tie("trace not accepted by the scheduler model (phase %d: %s)" % (i, p[:80]), where)
        ok = False
    if ok and parts and parts[-1].startswith("accept"):
        last = parts[-1].split()
        ctl = last[1]
        runs = sum(int(p.split()[2].split("=")[1]) for p in parts if p.startswith("accept"))
        if res.startswith("ok:"):
            if ctl != "ret1" or int(res[3:]) != runs:
                run.tie("final result differs from the model (tasks run / exit)", where)
                ok = False
        elif res == "fail":
            if ctl != "ret0":
                run.tie("final result differs from the model (failure exit)", where)
                ok = False
    return ok


# ----------------------------------------------------------------------------------------
# monitors on the implementation's own trace (independent of the Coq model)


def walk_trace(inv, j, k):
    """Yield per-phase summaries computed from the implementation's events:
    dict(graph, states (final), events [(kind, args, snapshot)], wanted set, ...)."""
    out = []
    states = {}
    for idx, ph in enumerate(inv.phases()):
        g = inv.graphs[-1] if ph["reloaded"] else inv.graphs[0]
        if ph["reloaded"] or idx == 0:
            states = {}
        running = []
        failed = []
        nfail = 0
        log = []
        started = []
        for e in ph["want"] + (ph["run"] or []):
            p = e.split("_")
            if p[0] == "set":
                b = int(p[1])
                states[b] = p[3]
            elif p[0] == "start":
                b = int(p[1])
                running.append(b)
                started.append(b)
                log.append(("start", b, dict(states), list(running), nfail))
            elif p[0] == "finish":
                b = int(p[1])
                if b in running:
                    running.remove(b)
                if p[2] != "0":
                    nfail += 1
                    failed.append(b)
                log.append(("finish", b, int(p[2]), dict(states)))
            elif p[0] == "record":
                log.append(("record", int(p[1]), dict(states)))
            elif p[0] == "update":
                log.append(("update", [int(x) for x in p[1:7]], dict(states), list(running), int(p[7]) if len(p) > 7 else None))
            elif p[0] == "dirty":
                log.append(("verdict", int(p[1]), p[2]))
            elif p[0] == "quiesce":
                log.append(("quiesce", dict(states), list(running)))
        out.append({"graph": g, "states": dict(states), "log": log, "started": started, "failed": failed,
                    "ran": ph["run"] is not None, "kind": ph["kind"], "reloaded": ph["reloaded"]})
    return out


def monitor_no_idle_wait(run, where, inv, j, k):
    """only ordering inputs order: whenever the loop goes to wait for a running command, every step still waiting (Want) has a
    producer of an explicit / implicit / order-only input that is not Done - nothing else (a reported dependency, a validation
    edge) may hold a step back"""
    for ph in walk_trace(inv, j, k):
        g = ph["graph"]
        if g.error:
            continue
        for ev in ph["log"]:
            if ev[0] != "quiesce":
                continue
            states = ev[1]
            for b, st in states.items():
                if st != "Want" or b >= len(g.builds):
                    continue
                bd = g.builds[b]
                prods = {g.files[f]["input"] for f in bd["ins"][: bd["explicit"] + bd["implicit"] + bd["order_only"]]}
                prods.discard(None)
                if all(states.get(p) == "Done" for p in prods):
                    outs = [g.files[o]["name"] for o in bd["outs"]]
                    run.report_failure(None, "n2 waits for a running command while step %d (%s) is held back although every producer of its "
                                             "declared inputs is done: something that is not an ordering input orders it" % (b, ",".join(outs)[:60]), where)
                    return


def monitor_c01(run, where, inv, j, k):
    monitor_no_idle_wait(run, where, inv, j, k)
    seen = {}
    for pi, ph in enumerate(walk_trace(inv, j, k)):
        g = ph["graph"]
        if ph["reloaded"]:
            seen = {}
        for ev in ph["log"]:
            if ev[0] != "start":
                continue
            b, st = ev[1], ev[2]
            for p in g.transitive(b, g.ordering_producers):
                if st.get(p) != "Done":
                    run.report_failure(None, "command of step %d started while step %d (a transitive ordering producer) is %s"
                                       % (b, p, st.get(p, "Unknown")), where)
            if b in seen:
                run.report_failure(None, "command of step %d started twice without a reload" % b, where)
            seen[b] = True


def monitor_c04(run, where, inv, j, k):
    for ph in walk_trace(inv, j, k):
        g = ph["graph"]
        depths = g.pool_depths()
        for ev in ph["log"]:
            if ev[0] != "start":
                continue
            running = ev[3]
            if len(running) > j:
                run.report_failure(None, "%d commands run at once with -j %d" % (len(running), j), where)
            per = {}
            for b in running:
                pn = g.builds[b]["pool"] or ""
                per[pn] = per.get(pn, 0) + 1
            for pn, c in per.items():
                d = depths.get(pn)
                if d is None:
                    run.report_failure(None, "step in undeclared pool %r was started" % pn, where)
                elif d > 0 and c > d:
                    run.report_failure(None, "%d commands of pool %r (depth %d) run at once" % (c, pn, d), where)


def monitor_c05(run, where, inv, j, k, adopt=False):
    phs = walk_trace(inv, j, k)
    any_fail = False
    for ph in phs:
        g = ph["graph"]
        failed_so_far = []
        nfail = 0
        finished_ok = set()
        stop = False
        for ev in ph["log"]:
            if ev[0] == "finish":
                if ev[2] == 0:
                    finished_ok.add(ev[1])
                else:
                    any_fail = True
                    failed_so_far.append(ev[1])
                    if ev[2] == 2:
                        stop = True
                    else:
                        nfail += 1
                        if k is not None and nfail >= k:
                            stop = True
            elif ev[0] == "start":
                b = ev[1]
                if stop:
                    run.report_failure(None, "step %d started after the failure budget was used up / an interruption" % b, where)
                for f in failed_so_far:
                    if f in g.transitive(b, g.ordering_producers):
                        run.report_failure(None, "step %d started although its (transitive) input producer %d failed" % (b, f), where)
            elif ev[0] == "record":
                if ev[1] not in finished_ok and not adopt:
                    run.report_failure(None, "step %d recorded as up to date without a successful finish" % ev[1], where)
    if any_fail and inv.result.startswith("ok:"):
        run.report_failure(None, "a command failed but the invocation reports success", where)
    # keep going: while the budget is not used up, everything not downstream of a failure is still brought up to date
    if inv.result == "fail" and phs:
        last = phs[-1]
        g = last["graph"]
        nfail = sum(1 for ev in last["log"] if ev[0] == "finish" and ev[2] == 1)
        interrupted = any(ev[0] == "finish" and ev[2] == 2 for ev in last["log"])
        running_at_end = set()
        for ev in last["log"]:
            if ev[0] == "start":
                running_at_end.add(ev[1])
            elif ev[0] == "finish":
                running_at_end.discard(ev[1])
        if not interrupted and (k is None or nfail < k):
            if running_at_end:
                run.report_failure(None, "the invocation ended after a failure while commands %r were still running and the -k budget was not used up" % sorted(running_at_end), where)
            really_failed = {ev[1] for ev in last["log"] if ev[0] == "finish" and ev[2] == 1}
            for b, st in last["states"].items():
                if st == "Failed" and b not in really_failed and not (g.transitive(b, g.ordering_producers) & really_failed):
                    run.report_failure(None, "step %d was given up as failed although its command never failed and it needs no output of a failed "
                                             "step (the -k budget was not used up)" % b, where)
                    break
            failed_steps = {b for b, st in last["states"].items() if st == "Failed"}
            for b, st in last["states"].items():
                if st in ("Done", "Failed"):
                    continue
                if not (g.transitive(b, g.ordering_producers) & failed_steps):
                    run.report_failure(None, "step %d is not downstream of any failed step and the -k budget was not used up, but it was left %s" % (b, st), where)
                    break
    if inv.result.startswith("ok:") and phs:
        last = phs[-1]
        for b, st in last["states"].items():
            if st != "Done":
                run.report_failure(None, "exit 0 although wanted step %d ended in state %s" % (b, st), where)


def monitor_c06(run, where, inv, j, k):
    if inv.result.startswith("panic:"):
        run.report_failure(None, "internal error: %s" % unhexs(inv.result[6:]).decode("utf-8", "replace")[:200], where)
    if inv.result.startswith("err:"):
        msg = unhexs(inv.result[4:]).decode("utf-8", "replace")
        if msg.startswith("dependency cycle: "):
            names = msg[len("dependency cycle: "):].split(" -> ")
            g = inv.graphs[-1]
            if len(names) < 2 or names[0] != names[-1]:
                run.report_failure(None, "malformed cycle message %r" % msg, where)
            else:
                for a, b in zip(names, names[1:]):
                    fa, fb = g.file_id(a), g.file_id(b)
                    prod = g.files[fa]["input"] if fa is not None else None
                    if prod is None or fb not in g.ordering_ins(prod):
                        run.report_failure(None, "reported cycle %r is not a cycle of ordering edges" % msg, where)
                        break
                cyc_builds = {g.files[g.file_id(n)]["input"] for n in names if g.file_id(n) is not None}
                for ph in walk_trace(inv, j, k):
                    if not ph["reloaded"] and len(inv.graphs) > 1:
                        continue
                    for b in ph["started"]:
                        if b in cyc_builds:
                            run.report_failure(None, "step %d of the reported cycle was run" % b, where)
    phs = walk_trace(inv, j, k)
    if inv.result.startswith("ok:") and phs:
        for b, st in phs[-1]["states"].items():
            if st != "Done":
                run.report_failure(None, "success reported but wanted step %d is %s" % (b, st), where)


def monitor_c19(run, where, inv, j, k):
    total_ok = 0
    for ph in walk_trace(inv, j, k):
        g = ph["graph"]
        prev_fin = None
        for ev in ph["log"]:
            if ev[0] == "finish" and ev[2] == 0:
                total_ok += 1
            if ev[0] != "update":
                continue
            c, st, running = ev[1], ev[2], ev[3]
            if len(ev) > 4 and ev[4] is not None and ev[4] != sum(c):
                run.report_failure(None, "the reported total %d is not the sum %d of the per-state counts %r" % (ev[4], sum(c), c), where)
            census = [0] * 6
            order = ["Want", "Ready", "Queued", "Running", "Done", "Failed"]
            for b, s in st.items():
                if not g.builds[b]["phony"] and s in order:
                    census[order.index(s)] += 1
            if census != c:
                run.report_failure(None, "progress counts %r differ from the census %r of the step states" % (c, census), where)
            if c[3] != len(running):
                run.report_failure(None, "running count %d but %d commands are executing" % (c[3], len(running)), where)
            wanted_nonphony = sum(1 for b in st if not g.builds[b]["phony"])
            if sum(c) != wanted_nonphony:
                run.report_failure(None, "total %d differs from the %d wanted non-phony steps" % (sum(c), wanted_nonphony), where)
            fin = c[4] + c[5]
            if prev_fin is not None and fin < prev_fin:
                run.report_failure(None, "finished count decreased from %d to %d" % (prev_fin, fin), where)
            prev_fin = fin
    if inv.result.startswith("ok:") and int(inv.result[3:]) != total_ok:
        run.report_failure(None, "summary says %s tasks, %d commands completed successfully" % (inv.result[3:], total_ok), where)


def closure_of(g, files):
    wanted = set()
    stack = [g.files[f]["input"] for f in files if g.files[f]["input"] is not None]
    while stack:
        b = stack.pop()
        if b in wanted:
            continue
        wanted.add(b)
        stack.extend(g.any_producers(b))
    return wanted


def monitor_resolved_after_regen(run, where, inv):
    """command-line names are resolved against the manifest in force after the regeneration phase, never before it"""
    if inv.result.startswith("err:") and "main_begin" not in inv.trace and inv.graphs and not inv.graphs[0].error:
        msg = unhexs(inv.result[4:]).decode("utf-8", "replace")
        if "unknown path requested" in msg:
            run.report_failure(None, "a command-line name was refused (%s) before the manifest was brought up to date and reloaded" % msg[:80], where)


def monitor_c18(run, where, inv, j, k, names, sel, adopt=False):
    monitor_resolved_after_regen(run, where, inv)
    phs = walk_trace(inv, j, k)
    if not phs:
        return
    main = [p for p in phs if p["kind"] == "main"]
    g = phs[-1]["graph"]
    if sel.startswith("ok"):
        ids = [int(x) for x in sel[3:].split(",") if x]
        if main and (inv.result.startswith("ok:") or inv.result == "fail"):
            want = closure_of(g, ids)
            m = g.file_id("build.ninja")
            if not main[-1]["reloaded"] and m is not None:
                want |= closure_of(g, [m])
            got = set(main[-1]["states"].keys())
            if got != want:
                run.report_failure(None, "considered steps %r differ from the closure %r of the requested targets" % (sorted(got), sorted(want)), where)
            for b in main[-1]["started"]:
                if b not in want:
                    run.report_failure(None, "step %d outside the requested closure was run" % b, where)
    # independent statement of the selection rule
    known = {f["name"] for f in g.files}
    for n in names:
        if n == "" or adopt:
            continue        # (`-t restat` is a tool, not a build: it skips names it does not know, as documented in run.rs)
        import posixpath
        if n not in known and posixpath.normpath(n) not in known and not inv.result.startswith("err:"):
            if main or inv.result.startswith("ok"):
                run.report_failure(None, "unknown target %r was not rejected (result %s)" % (n, inv.result[:40]), where)


def sched_check(PROP, THEOREMS, tier, seed, monitors, nscen_quick=600, nscen_thorough=6000, gen_kw=None,
                extra_modules=("Model.All",), note=None, replay=None, scen_gen=None, probes=None):
    run = Run(PROP, tier, seed, "proof")
    rng = random.Random(seed)
    if THEOREMS and isinstance(THEOREMS[0], str):
        info, problems = proof_gate_multi(THEOREMS, thorough=(tier == "thorough"))
    else:
        info, problems = proof_gate(PROP, THEOREMS, extra_modules=list(extra_modules), thorough=(tier == "thorough"))
    for p in problems:
        run.tie("proof gate", p)
    drv = build_driver()
    har, out = build_harness()
    if har is None:
        run.tie("harness build", out[-2000:])
        return run.finish()
    n = nscen_quick if tier == "quick" else nscen_thorough
    scens = []
    if replay:
        rp = json.load(open(replay))
        rp = rp.get("replay") or (rp.get("no_longer_checks") or [{}])[0].get("detail", {})
        scens.append((rp["scenario"], rp["invs"], None))
    else:
        corpus = os.path.join(VERIF, "corpus", "sched")
        if os.path.isdir(corpus):
            for f in sorted(os.listdir(corpus)):
                c = json.load(open(os.path.join(corpus, f)))
                scens.append((c["scenario"], c["invs"], None))
        gen = scen_gen or gen_sched_scenario
        for i in range(n):
            kw = dict(gen_kw or {})
            if "cyclic" not in kw:
                kw["cyclic"] = (i % 5 == 0)
            scens.append(gen(rng, **kw))
    if probes and not replay:
        probes(run, har)
    reports = run_histories(har, [s[0] for s in scens])
    items, index = [], []
    for si, ((text, invs, _), rep) in enumerate(zip(scens, reports)):
        if isinstance(rep, str):
            run.report_failure(None, "harness died on a scenario: %s" % rep[:200], {"scenario": text, "invs": invs})
            continue
        for ii, (inv, meta) in enumerate(zip(rep, invs)):
            items.append((inv, meta["j"], meta["k"], meta.get("adopt", False), meta["targets"]))
            index.append((si, ii))
    reps = replay_invocations(drv, items)
    stats = {"invocations": len(items), "accepted": 0, "with_failures": 0, "with_cycle_error": 0, "commands_started": 0,
             "events": 0, "results": {}}
    nontrivial = set()
    samples = []
    for (si, ii), (inv, j, k, adopt, names), rep in zip(index, items, reps):
        where = {"scenario": scens[si][0], "invs": scens[si][1], "invocation": ii, "result": inv.result}
        ok = check_acceptance(run, PROP, scens[si][0], ii, inv, scens[si][2], rep)
        if ok:
            stats["accepted"] += 1
        kind = inv.result.split(":")[0]
        stats["results"][kind] = stats["results"].get(kind, 0) + 1
        stats["commands_started"] += len(inv.started)
        stats["events"] += len(inv.trace)
        if any(e.startswith("finish") and not e.endswith("_0") for e in inv.trace):
            stats["with_failures"] += 1
        if inv.result.startswith("err:") and b"dependency cycle" in unhexs(inv.result[4:]):
            stats["with_cycle_error"] += 1
        for m in monitors:
            if m is monitor_c18:
                m(run, where, inv, j, k, names, rep["select"], adopt)
            elif m is monitor_c05:
                m(run, where, inv, j, k, adopt)
            else:
                m(run, where, inv, j, k)
        if len(inv.started) >= 2:
            nontrivial.add(",".join(inv.trace))
        if len(samples) < 3 and len(inv.started) >= 2:
            samples.append({"targets": names, "j": j, "k": k, "result": inv.result, "trace": inv.trace[:60]})
    run.coverage.update(info)
    run.coverage.update({
        "checker_cmd": "make -C coq theories/Props/%s.vo && coqc Gate_%s.v (Check pinned statements + Print Assumptions)" % (PROP, PROP),
        "trusted_base": TRUSTED_BASE,
        "evaluations": len(items),
        "distinct_nontrivial": len(nontrivial),
        "traces_validated_against_impl": stats["accepted"],
        "rule": "random graphs of 1..10 steps (all four edge kinds, multi-output, phony, pools, every 5th possibly cyclic) x histories of 1..3 "
                "invocations with edits in between x -j 1..4 x -k unset/1..3 x random completion orders and outcomes through the scripted "
                "executor; every invocation's trace is replayed through the extracted verified acceptor; non-trivial = distinct trace "
                "with at least two commands started",
        "stats": stats,
        "samples": samples or [{"note": "no invocation started two commands"}],
    })
    run.assumptions += ["the theorems quantify over all traces the acceptor (Model/Sched.v) accepts; the check shows that every observed trace is accepted",
                        "the real task::Runner (threads, channel, processes) is replaced by the scripted executor here; it is exercised by C16's black-box leg"]
    if note:
        run.assumptions.append(note)
    return run.finish()
