use std::any::Any;
use std::cell::RefCell;
use std::panic;

pub fn unhex(s: &str) -> Vec<u8> {
    let s = s.trim();
    if s == "-" {
        return Vec::new();
    }
    let b = s.as_bytes();
    let mut v = Vec::with_capacity(b.len() / 2);
    let mut i = 0;
    while i + 1 < b.len() {
        let h = (b[i] as char).to_digit(16).unwrap() as u8;
        let l = (b[i + 1] as char).to_digit(16).unwrap() as u8;
        v.push(h * 16 + l);
        i += 2;
    }
    v
}

pub fn hex(v: &[u8]) -> String {
    if v.is_empty() {
        return "-".to_string();
    }
    let mut s = String::with_capacity(v.len() * 2);
    for b in v {
        s.push_str(&format!("{:02x}", b));
    }
    s
}

thread_local! {
    static LAST_PANIC: RefCell<String> = RefCell::new(String::new());
}

/// Record "file:line" of the panic instead of printing it.
pub fn install_quiet_panic_hook() {
    panic::set_hook(Box::new(|info| {
        let loc = info
            .location()
            .map(|l| format!("{}:{}", l.file(), l.line()))
            .unwrap_or_else(|| "?".to_string());
        let msg = if let Some(s) = info.payload().downcast_ref::<&str>() {
            s.to_string()
        } else if let Some(s) = info.payload().downcast_ref::<String>() {
            s.clone()
        } else {
            String::new()
        };
        LAST_PANIC.with(|p| *p.borrow_mut() = format!("{}|{}", loc, msg.replace('\n', " ")));
    }));
}

/// "file:line|message" of the last panic on this thread.
pub fn panic_site(_e: &Box<dyn Any + Send>) -> String {
    LAST_PANIC.with(|p| p.borrow().clone())
}
