//! History suite: runs a scripted history (file edits, log truncations, invocations of the real
//! `run::build` with a scripted executor) inside a scratch directory and reports, per
//! invocation, the scheduler trace, the result, the graph as loaded by the real loader and the
//! state of the tree and of the build log afterwards.
//!
//! Scenario text (one command per line):
//!   file <name-hex> <content-hex>        write (new logical mtime)
//!   touch <name-hex>                     same content, new logical mtime
//!   del <name-hex>
//!   trunc <nbytes>                       truncate .n2_db
//!   dbappend <hex>                       append raw bytes to .n2_db
//!   inv <j> <k|-> <adopt> <manifest-hex|-> <targets-hex,comma|-> <script: pick:term,...|->
//!
//! Pseudo-commands: the command line of a step is `cmd <tag> [opt ...]`; options:
//!   deps=<a>;<b>   report these discovered dependencies      fail      terminate with failure
//!   partial        write the outputs even when failing       restat    leave an unchanged output alone
//!   skip=<out>     do not write that output                  gen=<f>   copy file f over the first output
//!   out=<text>     console output of the command (hex)     gen1=<f>  copy file f over the second output
//! An output's content is a digest of the command line, the contents of its dirtying inputs and of
//! the reported dependencies (deterministic, hermetic commands).
use crate::util::*;
use crate::raw_string;
use std::cell::RefCell;
use std::collections::HashMap;
use std::fmt::Write as _;
use std::path::Path;
use std::rc::Rc;
use std::time::{Duration, SystemTime};

const BASE: u64 = 1_500_000_000;

fn fnv(parts: &[&[u8]]) -> String {
    let mut h: u64 = 0xcbf29ce484222325;
    for p in parts {
        for b in p.iter().chain([0xffu8].iter()) {
            h ^= *b as u64;
            h = h.wrapping_mul(0x100000001b3);
        }
    }
    format!("{:016x}", h)
}

struct Shared {
    clock: u64,
    manifest_name: String,
    manifest_seen: Vec<u8>,
    builds: Vec<n2::verif::BuildDump>,
    running: Vec<usize>,
    infos: HashMap<usize, n2::verif::StartInfo>,
    script: Vec<(usize, u8)>,
    script_pos: usize,
    started: Vec<usize>,
    updates: Vec<[usize; 6]>,
    printed: Vec<(usize, u8, Vec<u8>)>,
    graphs: Vec<String>,
}

fn write_file(sh: &mut Shared, name: &str, content: &[u8]) {
    let p = Path::new(name);
    if let Some(parent) = p.parent() {
        if !parent.as_os_str().is_empty() {
            let _ = std::fs::create_dir_all(parent);
        }
    }
    std::fs::write(p, content).unwrap();
    set_mtime(sh, name);
    n2::verif::trace_push(format!("write {} {}", hex(name.as_bytes()), sh.clock));
}

fn set_mtime(sh: &mut Shared, name: &str) {
    sh.clock += 1;
    let f = std::fs::OpenOptions::new().write(true).open(name).unwrap();
    f.set_modified(SystemTime::UNIX_EPOCH + Duration::from_secs(BASE + sh.clock))
        .unwrap();
}

fn read_opt(name: &str) -> Vec<u8> {
    std::fs::read(name).unwrap_or_else(|_| b"<missing>".to_vec())
}

/// Encode the graph the real loader builds from the current manifest.
fn graph_dump(manifest_name: &str) -> (String, Vec<n2::verif::BuildDump>) {
    let text = match std::fs::read(manifest_name) {
        Ok(t) => t,
        Err(_) => return ("G err -".to_string(), Vec::new()),
    };
    // like load::read, the manifest is read under its canonical name (that is the `file` of every `file:line`)
    let canon_name = n2::canon::to_owned_canon_path(manifest_name);
    let s = match n2::verif::Session::load_text(&canon_name, text) {
        Ok(s) => s,
        Err(e) => return (format!("G err {}", hex(e.as_bytes())), Vec::new()),
    };
    let files = s.files();
    let builds = s.builds();
    let idx: HashMap<&str, usize> = files
        .iter()
        .enumerate()
        .map(|(i, f)| (f.name.as_str(), i))
        .collect();
    let mut o = String::new();
    write!(o, "G {} {}", builds.len(), files.len()).unwrap();
    for b in &builds {
        write!(o, " B {}", b.ins.len()).unwrap();
        for i in &b.ins {
            write!(o, " {}", idx[i.as_str()]).unwrap();
        }
        write!(
            o,
            " {} {} {} {}",
            b.explicit_ins,
            b.implicit_ins,
            b.order_only_ins,
            b.outs.len()
        )
        .unwrap();
        for i in &b.outs {
            write!(o, " {}", idx[i.as_str()]).unwrap();
        }
        write!(
            o,
            " {} {} {} {}",
            if b.cmdline.is_none() { 1 } else { 0 },
            match &b.pool {
                Some(p) => format!("p{}", hex(p.as_bytes())),
                None => "n".to_string(),
            },
            match &b.cmdline {
                Some(c) => format!("c{}", hex(c.as_bytes())),
                None => "n".to_string(),
            },
            match &b.rspfile {
                Some((p, c)) => format!("r{}:{}", hex(p), hex(c.as_bytes())),
                None => "n".to_string(),
            }
        )
        .unwrap();
    }
    for f in &files {
        write!(
            o,
            " F {} {} {}",
            hex(f.name.as_bytes()),
            f.input.map(|x| x as i64).unwrap_or(-1),
            f.dependents.len()
        )
        .unwrap();
        for d in &f.dependents {
            write!(o, " {}", d).unwrap();
        }
    }
    let pools = s.pools();
    write!(o, " P {}", pools.len()).unwrap();
    for (n, d) in &pools {
        write!(o, " {} {}", hex(n.as_bytes()), d).unwrap();
    }
    let defs = s.defaults();
    write!(o, " D {}", defs.len()).unwrap();
    for d in &defs {
        write!(o, " {}", idx[d.as_str()]).unwrap();
    }
    // the `file:line` of every step, as `-d explain` prints it
    write!(o, " L").unwrap();
    for b in &builds {
        write!(o, " {}", hex(b.location.as_bytes())).unwrap();
    }
    (o, builds)
}

fn refresh_graph(sh: &mut Shared) {
    // the manifest may include other files: re-dump whenever anything it could read has changed;
    // cheap fingerprint = the manifest plus every *.ninja / *.in-generated file in the directory
    let mut cur = std::fs::read(&sh.manifest_name).unwrap_or_default();
    if let Ok(rd) = std::fs::read_dir(".") {
        let mut names: Vec<_> = rd.filter_map(|e| e.ok()).map(|e| e.file_name()).collect();
        names.sort();
        for n in names {
            let s = n.to_string_lossy().into_owned();
            if s.ends_with(".ninja") && s != sh.manifest_name {
                cur.extend_from_slice(s.as_bytes());
                cur.push(0);
                cur.extend_from_slice(&std::fs::read(&s).unwrap_or_default());
            }
        }
    }
    if cur != sh.manifest_seen || sh.graphs.is_empty() {
        let (g, builds) = graph_dump(&sh.manifest_name);
        sh.graphs.push(g);
        sh.builds = builds;
        sh.manifest_seen = cur;
    }
}

struct Exec(Rc<RefCell<Shared>>);

impl n2::verif::Executor for Exec {
    fn start(&mut self, info: n2::verif::StartInfo) {
        let mut sh = self.0.borrow_mut();
        refresh_graph(&mut sh);
        // the real runner writes the response file before spawning
        if let Some((p, c)) = &info.rspfile {
            if let Some(parent) = p.parent() {
                let _ = std::fs::create_dir_all(parent);
            }
            let _ = std::fs::write(p, c);
        }
        sh.started.push(info.id);
        sh.running.push(info.id);
        sh.running.sort();
        sh.infos.insert(info.id, info);
    }

    fn wait(&mut self) -> n2::verif::FinishInfo {
        let mut sh = self.0.borrow_mut();
        assert!(!sh.running.is_empty(), "wait with nothing running");
        let (pick, mut term) = if sh.script_pos < sh.script.len() {
            let x = sh.script[sh.script_pos];
            sh.script_pos += 1;
            x
        } else {
            (0, 0)
        };
        let pos = pick % sh.running.len();
        let id = sh.running.remove(pos);
        let info = sh.infos.remove(&id).unwrap();
        let toks: Vec<String> = info.cmdline.split(' ').map(|s| s.to_string()).collect();
        let has = |k: &str| toks.iter().any(|t| t == k);
        let val = |k: &str| -> Option<String> {
            toks.iter()
                .find_map(|t| t.strip_prefix(k).map(|s| s.to_string()))
        };
        if has("fail") {
            term = 1;
        }
        let mut deps: Option<Vec<String>> = val("deps=").map(|v| {
            v.split(';')
                .filter(|s| !s.is_empty())
                .map(|s| s.to_string())
                .collect()
        });
        // depsfrom=<file>: the reported dependencies are the "#include <name>" lines of that file
        if let Some(src) = val("depsfrom=") {
            let text = String::from_utf8_lossy(&read_opt(&src)).into_owned();
            let mut ds = deps.take().unwrap_or_default();
            for l in text.lines() {
                if let Some(n) = l.strip_prefix("#include ") {
                    ds.push(n.trim().to_string());
                }
            }
            deps = Some(ds);
        }
        let output = val("out=").map(|h| unhex(&h)).unwrap_or_default();
        let writes = term == 0 || has("partial");
        if writes {
            let b = &sh.builds[id];
            let nd = b.explicit_ins + b.implicit_ins;
            let mut parts: Vec<Vec<u8>> = vec![info.cmdline.as_bytes().to_vec()];
            for i in &b.ins[..nd] {
                parts.push(read_opt(i));
            }
            if let Some(ds) = &deps {
                for d in ds {
                    parts.push(read_opt(d));
                }
            }
            let outs: Vec<String> = b.outs.clone();
            let gen = val("gen=");
            let restat = has("restat");
            for (k, o) in outs.iter().enumerate() {
                if val("skip=").as_deref() == Some(o.as_str()) {
                    continue;
                }
                let gen1 = val("gen1=");
                let content: Vec<u8> = match (&gen, &gen1, k) {
                    (Some(src), _, 0) => read_opt(src),
                    (_, Some(src), 1) => read_opt(src),
                    _ => {
                        let mut ps: Vec<&[u8]> = parts.iter().map(|p| p.as_slice()).collect();
                        ps.push(o.as_bytes());
                        fnv(&ps).into_bytes()
                    }
                };
                if restat {
                    if let Ok(old) = std::fs::read(o) {
                        if old == content {
                            continue;
                        }
                    }
                }
                write_file(&mut sh, o, &content);
            }
        }
        if term == 0 {
            if let Some(ds) = &deps {
                n2::verif::trace_push(format!(
                    "deps {} {}",
                    id,
                    if ds.is_empty() {
                        "-".to_string()
                    } else {
                        ds.iter().map(|d| hex(d.as_bytes())).collect::<Vec<_>>().join(";")
                    }
                ));
            }
        }
        n2::verif::FinishInfo {
            id,
            termination: term,
            output,
            discovered_deps: if term == 0 { deps } else { None },
        }
    }
}

struct Sink(Rc<RefCell<Shared>>);
impl n2::verif::ProgressSink for Sink {
    fn update(&self, counts: [usize; 6]) {
        self.0.borrow_mut().updates.push(counts);
    }
    fn task_started(&self, _id: usize) {}
    fn task_finished(&self, id: usize, termination: u8, output: &[u8]) {
        self.0
            .borrow_mut()
            .printed
            .push((id, termination, output.to_vec()));
    }
    fn log(&self, msg: &str) {
        // `-d explain` messages: kept in the trace, in order with the verdicts they belong to
        n2::verif::trace_push(format!("log {}", hex(msg.as_bytes())));
    }
}

fn tree_listing(dir: &Path, prefix: &str, out: &mut Vec<String>) {
    let mut ents: Vec<_> = std::fs::read_dir(dir).unwrap().map(|e| e.unwrap()).collect();
    ents.sort_by_key(|e| e.file_name());
    for e in ents {
        let name = format!("{}{}", prefix, e.file_name().to_string_lossy());
        let md = e.metadata().unwrap();
        if md.is_dir() {
            tree_listing(&e.path(), &format!("{}/", name), out);
        } else if name != ".n2_db" {
            let mt = md
                .modified()
                .unwrap()
                .duration_since(SystemTime::UNIX_EPOCH)
                .unwrap()
                .as_secs() as i64
                - BASE as i64;
            let c = std::fs::read(e.path()).unwrap();
            out.push(format!("{}={}:{}", hex(name.as_bytes()), mt, fnv(&[&c])));
        }
    }
}

pub fn hist_line(line: &str) -> String {
    let text = raw_string(unhex(line));
    let dir = std::env::temp_dir().join(format!(
        "n2verif-{}-{}",
        std::process::id(),
        SystemTime::now()
            .duration_since(SystemTime::UNIX_EPOCH)
            .unwrap()
            .as_nanos()
    ));
    std::fs::create_dir_all(&dir).unwrap();
    let old = std::env::current_dir().unwrap();
    std::env::set_current_dir(&dir).unwrap();
    let shared = Rc::new(RefCell::new(Shared {
        clock: 0,
        manifest_name: "build.ninja".to_string(),
        manifest_seen: Vec::new(),
        builds: Vec::new(),
        running: Vec::new(),
        infos: HashMap::new(),
        script: Vec::new(),
        script_pos: 0,
        started: Vec::new(),
        updates: Vec::new(),
        printed: Vec::new(),
        graphs: Vec::new(),
    }));
    let mut report: Vec<String> = Vec::new();
    for cmd in text.lines() {
        let w: Vec<&str> = cmd.split_whitespace().collect();
        if w.is_empty() {
            continue;
        }
        match w[0] {
            "file" => {
                let name = raw_string(unhex(w[1]));
                write_file(&mut shared.borrow_mut(), &name, &unhex(w[2]));
            }
            "touch" => {
                let name = raw_string(unhex(w[1]));
                if Path::new(&name).exists() {
                    set_mtime(&mut shared.borrow_mut(), &name);
                }
            }
            "del" => {
                let name = raw_string(unhex(w[1]));
                let _ = std::fs::remove_file(&name);
            }
            "trunc" => {
                let n: u64 = w[1].parse().unwrap();
                if let Ok(f) = std::fs::OpenOptions::new().write(true).open(".n2_db") {
                    let len = f.metadata().unwrap().len();
                    f.set_len(n.min(len)).unwrap();
                }
            }
            "dbappend" => {
                use std::io::Write;
                let mut f = std::fs::OpenOptions::new()
                    .append(true)
                    .create(true)
                    .open(".n2_db")
                    .unwrap();
                f.write_all(&unhex(w[1])).unwrap();
            }
            "inv" => {
                let j: usize = w[1].parse().unwrap();
                let k: Option<usize> = if w[2] == "-" { None } else { Some(w[2].parse().unwrap()) };
                let adopt = w[3] == "1";
                let explain = w.len() > 7 && w[7] == "x";
                let mname = if w[4] == "-" {
                    None
                } else {
                    Some(raw_string(unhex(w[4])))
                };
                let targets: Vec<String> = if w[5] == "-" {
                    Vec::new()
                } else {
                    w[5].split(',')
                        .map(|t| raw_string(unhex(t)))
                        .collect()
                };
                let script: Vec<(usize, u8)> = if w[6] == "-" {
                    Vec::new()
                } else {
                    w[6].split(',')
                        .map(|p| {
                            let (a, b) = p.split_once(':').unwrap();
                            (a.parse().unwrap(), b.parse().unwrap())
                        })
                        .collect()
                };
                {
                    let mut sh = shared.borrow_mut();
                    sh.manifest_name = mname.clone().unwrap_or_else(|| "build.ninja".to_string());
                    sh.script = script;
                    sh.script_pos = 0;
                    sh.started.clear();
                    sh.updates.clear();
                    sh.printed.clear();
                    sh.graphs.clear();
                    sh.running.clear();
                    sh.infos.clear();
                    sh.manifest_seen.clear();
                    refresh_graph(&mut sh);
                }
                let mut files0 = Vec::new();
                tree_listing(Path::new("."), "", &mut files0);
                let db0 = std::fs::read(".n2_db").ok();
                n2::verif::set_executor(Some(Box::new(Exec(shared.clone()))));
                n2::verif::set_progress(Some(Box::new(Sink(shared.clone()))));
                n2::verif::trace_begin();
                let sh2 = shared.clone();
                let r = std::panic::catch_unwind(std::panic::AssertUnwindSafe(|| {
                    n2::verif::run_build(mname.clone(), targets.clone(), j, k, explain, adopt)
                }));
                let _ = sh2;
                let trace = n2::verif::trace_end();
                n2::verif::set_executor(None);
                n2::verif::set_progress(None);
                let res = match r {
                    Ok(Ok(Some(n))) => format!("ok:{}", n),
                    Ok(Ok(None)) => "fail".to_string(),
                    Ok(Err(e)) => format!("err:{}", hex(e.as_bytes())),
                    Err(e) => format!("panic:{}", hex(panic_site(&e).as_bytes())),
                };
                {
                    let mut sh = shared.borrow_mut();
                    refresh_graph(&mut sh);
                }
                let sh = shared.borrow();
                let mut files = Vec::new();
                tree_listing(Path::new("."), "", &mut files);
                let db = std::fs::read(".n2_db").unwrap_or_default();
                report.push(format!(
                    "INV files0={} db0={} result={} started={} trace={} graphs={} files={} db={} printed={}",
                    files0.join(","),
                    match &db0 {
                        Some(b) => hex(b),
                        None => "none".to_string(),
                    },
                    res,
                    sh.started
                        .iter()
                        .map(|x| x.to_string())
                        .collect::<Vec<_>>()
                        .join(","),
                    trace
                        .iter()
                        .map(|e| {
                            // "dirty <b> error <message>": the message is hex-encoded
                            let p: Vec<&str> = e.splitn(4, ' ').collect();
                            if p.len() == 4 && p[0] == "dirty" && p[2] == "error" {
                                format!("dirty_{}_error_{}", p[1], hex(p[3].as_bytes()))
                            } else {
                                e.replace(' ', "_")
                            }
                        })
                        .collect::<Vec<_>>()
                        .join(","),
                    sh.graphs
                        .iter()
                        .map(|g| g.replace(' ', "_"))
                        .collect::<Vec<_>>()
                        .join("|"),
                    files.join(","),
                    hex(&db),
                    sh.printed
                        .iter()
                        .map(|(i, t, o)| format!("{}:{}:{}", i, t, hex(o)))
                        .collect::<Vec<_>>()
                        .join(","),
                ));
            }
            _ => report.push(format!("BAD {}", cmd)),
        }
    }
    std::env::set_current_dir(&old).unwrap();
    let _ = std::fs::remove_dir_all(&dir);
    report.join(" ;; ")
}
