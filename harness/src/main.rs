//! Implementation side of the correspondence check: runs the real n2 functions on the cases
//! read from stdin (one per line) and prints one canonical result per line.
use std::io::{BufRead, Write};
use std::panic;

mod hist;
mod util;
use util::*;

fn canon_line(line: &str) -> String {
    let bytes = unhex(line);
    let r = panic::catch_unwind(|| {
        // canonicalize_path takes a String; inputs are arbitrary bytes in the model, the
        // generators only produce valid UTF-8 for this suite.
        let mut s = String::from_utf8(bytes).expect("utf8");
        n2::canon::canonicalize_path(&mut s);
        s.into_bytes()
    });
    match r {
        Ok(v) => format!("ok {}", hex(&v)),
        Err(e) => format!("panic {}", panic_site(&e)),
    }
}

fn words(line: &str) -> Vec<&str> {
    line.split_whitespace().collect()
}

fn guarded(f: impl FnOnce() -> String + panic::UnwindSafe) -> String {
    match panic::catch_unwind(f) {
        Ok(s) => s,
        Err(e) => format!("panic {}", panic_site(&e)),
    }
}

fn depfile_line(line: &str) -> String {
    let bytes = unhex(line);
    guarded(move || match n2::verif::depfile_parse(bytes) {
        Ok(m) => {
            let parts: Vec<String> = m
                .iter()
                .map(|(t, ds)| {
                    format!(
                        "{}:{}",
                        hex(t),
                        ds.iter().map(|d| hex(d)).collect::<Vec<_>>().join(",")
                    )
                })
                .collect();
            format!("ok {}", parts.join(";"))
        }
        Err(e) => format!("err {}", hex(e.as_bytes())),
    })
}

fn showincludes_line(line: &str) -> String {
    let bytes = unhex(line);
    guarded(move || {
        let (incs, out) = n2::verif::extract_showincludes(bytes);
        format!(
            "ok {}|{}",
            incs.iter().map(|d| hex(d)).collect::<Vec<_>>().join(","),
            hex(&out)
        )
    })
}

fn lastline_line(line: &str) -> String {
    let bytes = unhex(line);
    guarded(move || format!("ok {}", hex(n2::verif::find_last_line(&bytes))))
}

fn taskmsg_line(line: &str) -> String {
    let w = words(line);
    let msg = String::from_utf8(unhex(w[0])).expect("utf8");
    let secs: usize = w[1].parse().unwrap();
    let cols: usize = w[2].parse().unwrap();
    guarded(move || format!("ok {}", hex(n2::verif::task_message(&msg, secs, cols).as_bytes())))
}

fn truncate_line(line: &str) -> String {
    let w = words(line);
    let msg = String::from_utf8(unhex(w[0])).expect("utf8");
    let max: usize = w[1].parse().unwrap();
    guarded(move || format!("ok {}", hex(n2::verif::truncate(&msg, max).as_bytes())))
}

fn bar_line(line: &str) -> String {
    let w: Vec<usize> = words(line).iter().map(|x| x.parse().unwrap()).collect();
    guarded(move || {
        format!(
            "ok {}",
            hex(n2::verif::progress_bar([w[0], w[1], w[2], w[3], w[4], w[5]], w[6]).as_bytes())
        )
    })
}

fn dedup_line(line: &str) -> String {
    // explicit id id id ...
    let w: Vec<usize> = words(line).iter().map(|x| x.parse().unwrap()).collect();
    guarded(move || {
        let (ids, explicit) = n2::verif::remove_duplicates(w[1..].to_vec(), w[0]);
        format!(
            "ok {} {}",
            explicit,
            ids.iter().map(|x| x.to_string()).collect::<Vec<_>>().join(" ")
        )
    })
}

/// <manifest-hex> <file-hex|-> [W <build> <hexhash> <dep-hex,dep-hex|->]...
fn db_line(line: &str) -> String {
    let w: Vec<String> = words(line).iter().map(|s| s.to_string()).collect();
    let dir = std::env::temp_dir().join(format!(
        "n2verif-db-{}-{}",
        std::process::id(),
        std::time::SystemTime::now()
            .duration_since(std::time::SystemTime::UNIX_EPOCH)
            .unwrap()
            .as_nanos()
    ));
    std::fs::create_dir_all(&dir).unwrap();
    let dbp = dir.join(".n2_db");
    if w[1] != "-x" {
        std::fs::write(&dbp, unhex(&w[1])).unwrap();
    }
    let manifest = unhex(&w[0]);
    let res = guarded({
        let dbp = dbp.clone();
        let w = w.clone();
        move || {
            let mut s = match n2::verif::Session::load_text("build.ninja", manifest) {
                Ok(s) => s,
                Err(e) => return format!("manifest-error {}", hex(e.as_bytes())),
            };
            if let Err(e) = s.open_db(&dbp) {
                return format!("err {}", hex(e.as_bytes()));
            }
            let after_open = std::fs::read(&dbp).unwrap();
            let loaded: Vec<String> = s
                .builds()
                .iter()
                .enumerate()
                .filter_map(|(i, b)| {
                    b.last_hash.map(|h| {
                        format!(
                            "{}:{:x}:{}",
                            i,
                            h,
                            b.discovered_ins
                                .iter()
                                .map(|d| hex(d.as_bytes()))
                                .collect::<Vec<_>>()
                                .join(",")
                        )
                    })
                })
                .collect();
            let mut i = 2;
            while i + 3 < w.len() + 0 && w[i] == "W" {
                let b: usize = w[i + 1].parse().unwrap();
                let h = u64::from_str_radix(&w[i + 2], 16).unwrap();
                let deps: Vec<String> = if w[i + 3] == "-" {
                    Vec::new()
                } else {
                    w[i + 3]
                        .split(',')
                        .map(|d| String::from_utf8(unhex(d)).unwrap())
                        .collect()
                };
                if let Err(e) = s.write_build(b, deps, h) {
                    return format!("werr {}", hex(e.as_bytes()));
                }
                i += 4;
            }
            s.close_db();
            let fin = std::fs::read(&dbp).unwrap();
            format!(
                "ok after_open={} loaded={} final={}",
                hex(&after_open),
                loaded.join(";"),
                hex(&fin)
            )
        }
    });
    let _ = std::fs::remove_dir_all(&dir);
    res
}

fn main() {
    let args: Vec<String> = std::env::args().collect();
    let suite = args.get(1).map(|s| s.as_str()).unwrap_or("");
    install_quiet_panic_hook();
    let f: fn(&str) -> String = match suite {
        "canon" => canon_line,
        "depfile" => depfile_line,
        "showincludes" => showincludes_line,
        "lastline" => lastline_line,
        "taskmsg" => taskmsg_line,
        "truncate" => truncate_line,
        "bar" => bar_line,
        "dedup" => dedup_line,
        "hist" => hist::hist_line,
        "db" => db_line,
        _ => {
            eprintln!("unknown suite {suite}");
            std::process::exit(2);
        }
    };
    let stdin = std::io::stdin();
    let stdout = std::io::stdout();
    let mut out = std::io::BufWriter::new(stdout.lock());
    for line in stdin.lock().lines() {
        let line = line.unwrap();
        let res = f(line.trim_end());
        writeln!(out, "{}", res).unwrap();
        // keep the stream line-exact so that an abort identifies the offending case
        out.flush().unwrap();
    }
}
