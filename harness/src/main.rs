//! Implementation side of the correspondence check: runs the real n2 functions on the cases
//! read from stdin (one per line) and prints one canonical result per line.
use std::io::{BufRead, Write};
use std::panic;

mod util;
use util::*;

fn canon_line(line: &str) -> String {
    let bytes = unhex(line);
    let r = panic::catch_unwind(|| {
        // canonicalize_path takes a String; inputs are arbitrary bytes in the model, the
        // generators only produce valid UTF-8 for this suite.
        let mut s = String::from_utf8(bytes).expect("utf8");
        n2::canon::canonicalize_path(&mut s);
        s.into_bytes()
    });
    match r {
        Ok(v) => format!("ok {}", hex(&v)),
        Err(e) => format!("panic {}", panic_site(&e)),
    }
}

fn main() {
    let args: Vec<String> = std::env::args().collect();
    let suite = args.get(1).map(|s| s.as_str()).unwrap_or("");
    install_quiet_panic_hook();
    let f: fn(&str) -> String = match suite {
        "canon" => canon_line,
        _ => {
            eprintln!("unknown suite {suite}");
            std::process::exit(2);
        }
    };
    let stdin = std::io::stdin();
    let stdout = std::io::stdout();
    let mut out = std::io::BufWriter::new(stdout.lock());
    for line in stdin.lock().lines() {
        let line = line.unwrap();
        let res = f(line.trim_end());
        writeln!(out, "{}", res).unwrap();
        // keep the stream line-exact so that an abort identifies the offending case
        out.flush().unwrap();
    }
}
