//! Implementation side of the correspondence check: runs the real n2 functions on the cases
//! read from stdin (one per line) and prints one canonical result per line.
use std::io::{BufRead, Write};
use std::panic;

mod hist;
mod util;
use util::*;

fn canon_line(line: &str) -> String {
    let bytes = unhex(line);
    let r = panic::catch_unwind(|| {
        // canonicalize_path takes a String; inputs are arbitrary bytes in the model, the
        // generators only produce valid UTF-8 for this suite.
        let mut s = String::from_utf8(bytes).expect("utf8");
        n2::canon::canonicalize_path(&mut s);
        s.into_bytes()
    });
    match r {
        Ok(v) => format!("ok {}", hex(&v)),
        Err(e) => format!("panic {}", panic_site(&e)),
    }
}

fn words(line: &str) -> Vec<&str> {
    line.split_whitespace().collect()
}

fn guarded(f: impl FnOnce() -> String + panic::UnwindSafe) -> String {
    match panic::catch_unwind(f) {
        Ok(s) => s,
        Err(e) => format!("panic {}", panic_site(&e)),
    }
}

fn depfile_line(line: &str) -> String {
    let bytes = unhex(line);
    guarded(move || match n2::verif::depfile_parse(bytes) {
        Ok(m) => {
            let parts: Vec<String> = m
                .iter()
                .map(|(t, ds)| {
                    format!(
                        "{}:{}",
                        hex(t),
                        ds.iter().map(|d| hex(d)).collect::<Vec<_>>().join(",")
                    )
                })
                .collect();
            format!("ok {}", parts.join(";"))
        }
        Err(e) => format!("err {}", hex(e.as_bytes())),
    })
}

fn showincludes_line(line: &str) -> String {
    let bytes = unhex(line);
    guarded(move || {
        let (incs, out) = n2::verif::extract_showincludes(bytes);
        format!(
            "ok {}|{}",
            incs.iter().map(|d| hex(d)).collect::<Vec<_>>().join(","),
            hex(&out)
        )
    })
}

fn lastline_line(line: &str) -> String {
    let bytes = unhex(line);
    guarded(move || format!("ok {}", hex(n2::verif::find_last_line(&bytes))))
}

/// task::read_depfile on a real file: `-x` = no such file, otherwise the hex content
fn readdepfile_line(line: &str) -> String {
    let l = line.trim().to_string();
    guarded(move || {
        let dir = std::env::temp_dir().join(format!("n2verif-rd-{}", std::process::id()));
        std::fs::create_dir_all(&dir).unwrap();
        let p = dir.join("x.d");
        let _ = std::fs::remove_file(&p);
        if l != "-x" {
            std::fs::write(&p, unhex(&l)).unwrap();
        }
        let r = match n2::verif::read_depfile(&p) {
            Ok(deps) => format!(
                "ok {}",
                deps.iter().map(|d| hex(d.as_bytes())).collect::<Vec<_>>().join(",")
            ),
            Err(e) => format!("err {}", hex(e.as_bytes())),
        };
        let _ = std::fs::remove_file(&p);
        r
    })
}

/// std's DefaultHasher (what hash.rs builds on) over raw bytes
fn siphash_line(line: &str) -> String {
    use std::hash::Hasher;
    let b = unhex(line);
    let mut h = std::collections::hash_map::DefaultHasher::new();
    h.write(&b);
    format!("ok {:x}", h.finish())
}

fn taskmsg_line(line: &str) -> String {
    let w = words(line);
    let msg = String::from_utf8(unhex(w[0])).expect("utf8");
    let secs: usize = w[1].parse().unwrap();
    let cols: usize = w[2].parse().unwrap();
    guarded(move || format!("ok {}", hex(n2::verif::task_message(&msg, secs, cols).as_bytes())))
}

fn truncate_line(line: &str) -> String {
    let w = words(line);
    let msg = String::from_utf8(unhex(w[0])).expect("utf8");
    let max: usize = w[1].parse().unwrap();
    guarded(move || format!("ok {}", hex(n2::verif::truncate(&msg, max).as_bytes())))
}

fn bar_line(line: &str) -> String {
    let w: Vec<usize> = words(line).iter().map(|x| x.parse().unwrap()).collect();
    guarded(move || {
        format!(
            "ok {}",
            hex(n2::verif::progress_bar([w[0], w[1], w[2], w[3], w[4], w[5]], w[6]).as_bytes())
        )
    })
}

/// run `f` with fd 1 redirected to a scratch file; returns what was written there
fn capture_stdout(f: impl FnOnce()) -> Vec<u8> {
    use std::io::Write;
    use std::os::fd::AsRawFd;
    std::io::stdout().flush().ok();
    let path = std::env::temp_dir().join(format!("n2verif-out-{}", std::process::id()));
    let file = std::fs::File::create(&path).unwrap();
    let saved = unsafe { libc::dup(1) };
    unsafe { libc::dup2(file.as_raw_fd(), 1) };
    let r = std::panic::catch_unwind(std::panic::AssertUnwindSafe(f));
    std::io::stdout().flush().ok();
    unsafe {
        libc::dup2(saved, 1);
        libc::close(saved);
    }
    drop(file);
    let out = std::fs::read(&path).unwrap_or_default();
    let _ = std::fs::remove_file(&path);
    if let Err(e) = r {
        std::panic::resume_unwind(e);
    }
    out
}

/// v=<0|1> then `;`-separated: S id desc cmd | F id desc cmd hide term hex  -> the bytes the plain console printed
fn dumb_line(line: &str) -> String {
    let line = line.to_string();
    guarded(move || {
        let (v, rest) = line.split_once(' ').unwrap_or((&line, ""));
        let opt = |s: &str| if s == "~" { None } else { Some(raw_string(unhex(s))) };
        let verbose = v == "v=1";
        let rest = rest.to_string();
        let out = capture_stdout(move || {
            let st = n2::verif::Dumb::new(verbose);
            for op in rest.split(';') {
                let w = words(op);
                if w.is_empty() {
                    continue;
                }
                match w[0] {
                    "S" => st.task_started(w[1].parse().unwrap(), opt(w[2]), opt(w[3])),
                    "F" => st.task_finished(w[1].parse().unwrap(), opt(w[2]), opt(w[3]), w[4] == "1", w[5].parse().unwrap(), unhex(w[6])),
                    _ => panic!("bad op"),
                }
            }
        });
        format!("ok {}", hex(&out))
    })
}

/// Work::create_parent_dirs and task::write_rspfile on a real scratch tree (Model/Fs.v).
/// <cwd-hex> ; <tree: D path-hex | F path-hex content-hex, ','-separated, parents first> ; <ops: D out-hex... | R name-hex content-hex>
/// Names starting with '/' are placed under the scratch root.  Prints the result of every operation and the final tree.
fn fs_line(line: &str) -> String {
    use std::os::unix::ffi::OsStringExt;
    let line = line.to_string();
    guarded(move || {
        let parts: Vec<&str> = line.split(';').collect();
        if parts.len() != 3 {
            return "bad".to_string();
        }
        let root = std::env::temp_dir().join(format!("n2verif-fs-{}", std::process::id()));
        let _ = std::fs::remove_dir_all(&root);
        std::fs::create_dir_all(&root).unwrap();
        let os = |b: Vec<u8>| std::path::PathBuf::from(std::ffi::OsString::from_vec(b));
        for e in parts[1].split(',') {
            let w = words(e);
            match w.as_slice() {
                [] => {}
                ["D", p] => std::fs::create_dir(root.join(os(unhex(p)))).unwrap(),
                ["F", p, c] => std::fs::write(root.join(os(unhex(p))), unhex(c)).unwrap(),
                _ => panic!("bad fs entry"),
            }
        }
        let cwd = root.join(os(unhex(parts[0])));
        let old = std::env::current_dir().unwrap();
        std::env::set_current_dir(&cwd).unwrap();
        let place = |name: Vec<u8>| -> Vec<u8> {
            if name.first() == Some(&b'/') {
                let mut v = root.clone().into_os_string().into_vec();
                v.extend_from_slice(&name);
                v
            } else {
                name
            }
        };
        let errname = |e: i32| match e {
            2 => "ENOENT".to_string(),
            17 => "EEXIST".to_string(),
            20 => "ENOTDIR".to_string(),
            21 => "EISDIR".to_string(),
            n => format!("E{}", n),
        };
        let mut res: Vec<String> = Vec::new();
        let body = panic::catch_unwind(panic::AssertUnwindSafe(|| {
            for o in parts[2].split(',') {
                let w = words(o);
                match w.as_slice() {
                    [] => {}
                    ["R", n, c] => {
                        let r = n2::verif::write_rspfile(os(place(unhex(n))), unhex(c));
                        res.push(match r { Ok(()) => "ok".to_string(), Err(e) => errname(e) });
                    }
                    w if w[0] == "D" => {
                        let mut text: Vec<u8> = b"rule r\n  command = x\nbuild".to_vec();
                        for n in &w[1..] {
                            text.push(b' ');
                            for b in place(unhex(n)) {
                                if b == b' ' || b == b':' || b == b'$' || b == b'|' {
                                    text.push(b'$');
                                }
                                text.push(b);
                            }
                        }
                        text.extend_from_slice(b": r\n");
                        // the manifest and the log live outside the tree under test
                        let side = root.with_extension("side");
                        let _ = std::fs::remove_dir_all(&side);
                        std::fs::create_dir_all(&side).unwrap();
                        let mf = side.join("build.ninja");
                        let mut full = format!("builddir = {}\n", side.display()).into_bytes();
                        full.extend_from_slice(&text);
                        std::fs::write(&mf, full).unwrap();
                        let mut r = Err(-3);
                        let _warnings = capture_stdout(|| r = n2::verif::create_parent_dirs(mf.to_str().unwrap(), 0));
                        let _ = std::fs::remove_dir_all(&side);
                        res.push(match r { Ok(()) => "ok".to_string(), Err(e) => errname(e) });
                    }
                    _ => panic!("bad fs op"),
                }
            }
        }));
        std::env::set_current_dir(&old).unwrap();
        let mut items: Vec<String> = Vec::new();
        fn listing(root: &std::path::Path, dir: &std::path::Path, items: &mut Vec<String>) {
            use std::os::unix::ffi::OsStrExt;
            for e in std::fs::read_dir(dir).unwrap() {
                let e = e.unwrap();
                let p = e.path();
                let rel = p.strip_prefix(root).unwrap().as_os_str().as_bytes().to_vec();
                if e.file_type().unwrap().is_dir() {
                    items.push(format!("D {}", hex(&rel)));
                    listing(root, &p, items);
                } else {
                    items.push(format!("F {} {}", hex(&rel), hex(&std::fs::read(&p).unwrap())));
                }
            }
        }
        listing(&root, &root, &mut items);
        items.sort();
        let _ = std::fs::remove_dir_all(&root);
        if let Err(e) = body {
            return format!("panic {}", panic_site(&e));
        }
        format!("{} | {}", res.join(" "), items.join(","))
    })
}

/// terminal::get_cols with fd 0 replaced for the call: "<n>" = a pty whose window size says n columns, "fail" = /dev/null
fn cols_line(line: &str) -> String {
    let line = line.trim().to_string();
    guarded(move || unsafe {
        let saved = libc::dup(0);
        let (mut master, mut slave) = (-1, -1);
        if line == "fail" {
            let fd = libc::open(b"/dev/null\0".as_ptr() as *const libc::c_char, libc::O_RDONLY);
            libc::dup2(fd, 0);
            libc::close(fd);
        } else {
            let n: u16 = line.parse().unwrap();
            let mut ws: libc::winsize = std::mem::zeroed();
            ws.ws_col = n;
            ws.ws_row = 24;
            if libc::openpty(&mut master, &mut slave, std::ptr::null_mut(), std::ptr::null(), &ws) != 0 {
                libc::close(saved);
                return "nopty".to_string();
            }
            libc::dup2(slave, 0);
        }
        let r = n2::verif::terminal_get_cols();
        libc::dup2(saved, 0);
        libc::close(saved);
        if master >= 0 {
            libc::close(master);
            libc::close(slave);
        }
        match r {
            Some(c) => format!("some {} use {}", c, c),
            None => "none use 80".to_string(),
        }
    })
}

/// std::path::Path on raw bytes: "<rooted 0/1> <components '/'-joined, hex> | <parent: none or rooted + components>"
fn pathparts_line(line: &str) -> String {
    use std::os::unix::ffi::OsStrExt;
    let b = unhex(line);
    guarded(move || {
        let p = std::path::Path::new(std::ffi::OsStr::from_bytes(&b));
        let show = |p: &std::path::Path| {
            let mut comps: Vec<Vec<u8>> = Vec::new();
            for c in p.components() {
                match c {
                    std::path::Component::RootDir => {}
                    other => comps.push(other.as_os_str().as_bytes().to_vec()),
                }
            }
            format!("{} {}", p.has_root() as u8, hex(&comps.join(&b'/')))
        };
        match p.parent() {
            Some(q) => format!("{} | {}", show(p), show(q)),
            None => format!("{} | none", show(p)),
        }
    })
}

/// run.rs parse_args on a real command line: this executable is started again (argv[0] and the arguments as given, cwd = a
/// scratch directory with the subdirectories d1, d1/d2 and "with space") and reports what parse_args returned.
/// <argv0-hex> [arg-hex ...]
fn cli_line(line: &str) -> String {
    use std::os::unix::ffi::OsStringExt;
    use std::os::unix::process::CommandExt;
    let w: Vec<String> = words(line).iter().map(|s| s.to_string()).collect();
    guarded(move || {
        let dir = std::env::temp_dir().join(format!("n2verif-cli-{}", std::process::id()));
        let _ = std::fs::remove_dir_all(&dir);
        std::fs::create_dir_all(dir.join("d1").join("d2")).unwrap();
        std::fs::create_dir_all(dir.join("with space")).unwrap();
        let exe = std::env::current_exe().unwrap();
        let mut cmd = std::process::Command::new(&exe);
        cmd.arg0(std::ffi::OsString::from_vec(unhex(&w[0])));
        for a in &w[1..] {
            cmd.arg(std::ffi::OsString::from_vec(unhex(a)));
        }
        cmd.env("N2_VERIF_PARSE", "1").current_dir(&dir).stdin(std::process::Stdio::null());
        let out = cmd.output().unwrap();
        let text = String::from_utf8_lossy(&out.stdout).into_owned();
        let last = text.lines().last().unwrap_or("").to_string();
        let base = std::fs::canonicalize(&dir).unwrap().to_string_lossy().into_owned();
        // `-d trace` creates trace.json in the directory current at that moment
        let traced = ["", "d1", "d1/d2", "with space"].iter().any(|d| dir.join(d).join("trace.json").exists());
        let _ = std::fs::remove_dir_all(&dir);
        if !out.status.success() {
            return format!("died {:?} {}", out.status.code(), String::from_utf8_lossy(&out.stderr).lines().last().unwrap_or(""));
        }
        // make the reported directory relative to the scratch directory
        format!("{} trace={}", last.replace(&format!("cwd={}", hex(base.as_bytes())), "cwd="), traced as u8)
    })
}

/// task::run_task around a scripted command:
/// <showinc 0|1> <term 0|1|2> <stale depfile ~|hex> <depfile the command writes ~|hex> <rspfile content ~|hex> <chunk,chunk,...|->
fn task_line(line: &str) -> String {
    let w: Vec<String> = words(line).iter().map(|s| s.to_string()).collect();
    guarded(move || {
        let dir = std::env::temp_dir().join(format!("n2verif-task-{}", std::process::id()));
        let _ = std::fs::remove_dir_all(&dir);
        std::fs::create_dir_all(&dir).unwrap();
        let showinc = w[0] == "1";
        let term: u8 = w[1].parse().unwrap();
        let dpath = dir.join("sub").join("o.d");
        let rpath = dir.join("rsp").join("deep").join("o.rsp");
        let uses_depfile = w[2] != "~" || w[3] != "~" || w.get(6).map(|s| s == "d").unwrap_or(false);
        if w[2] != "~" {
            std::fs::create_dir_all(dpath.parent().unwrap()).unwrap();
            std::fs::write(&dpath, unhex(&w[2])).unwrap();
        }
        let chunks: Vec<Vec<u8>> = if w[5] == "-" { vec![] } else { w[5].split(',').map(|c| unhex(c)).collect() };
        if w[3] != "~" {
            std::fs::create_dir_all(dpath.parent().unwrap()).unwrap();
        }
        n2::verif::set_command_script(Some(n2::verif::CommandScript {
            chunks,
            termination: term,
            write_depfile: if w[3] != "~" { Some((dpath.clone(), unhex(&w[3]))) } else { None },
            observe: Some(rpath.clone()),
        }));
        let rsp = if w[4] != "~" { Some((rpath.clone(), unhex(&w[4]))) } else { None };
        let (r, lines) = n2::verif::run_task("the command", if uses_depfile { Some(dpath.as_path()) } else { None }, showinc, rsp);
        let seen = n2::verif::take_command_observed();
        n2::verif::set_command_script(None);
        let _ = std::fs::remove_dir_all(&dir);
        let dstr = dpath.to_string_lossy().into_owned();
        let seen_s = match seen {
            Some((cmd, Some(c))) if cmd == "the command" => hex(&c),
            Some((cmd, None)) if cmd == "the command" => "~".to_string(),
            _ => "?".to_string(),
        };
        let ll = lines.iter().map(|l| hex(l)).collect::<Vec<_>>().join(",");
        match r {
            Ok(t) => format!(
                "ok {} {} {} lines={} rsp={}",
                t.termination,
                hex(&t.output),
                match t.discovered_deps {
                    None => "~".to_string(),
                    Some(d) => format!("[{}]", d.iter().map(|x| hex(x)).collect::<Vec<_>>().join(",")),
                },
                ll,
                seen_s
            ),
            // the scratch path is replaced by a fixed name so that both sides print the same text
            Err(e) => {
                // the caret line is indented by the length of "<path>:<line>: " plus the column: take the difference out again
                let mut t = e.replace(&dstr, "DEPFILE");
                if e.contains(&dstr) && dstr.len() > 7 {
                    if let Some(pos) = t.rfind("\n ") {
                        let cut = dstr.len() - 7;
                        if t[pos + 1..].starts_with(&" ".repeat(cut)) {
                            t.replace_range(pos + 1..pos + 1 + cut, "");
                        }
                    }
                }
                format!("err {} rsp={}", hex(t.as_bytes()), seen_s)
            }
        }
    })
}

/// String::from_utf8_lossy (what FancyState::task_output applies to a command's last output line)
fn lossy_line(line: &str) -> String {
    let b = unhex(line);
    format!("ok {}", hex(String::from_utf8_lossy(&b).as_bytes()))
}

/// v=<0|1> then `;`-separated operations on the fancy console state:
/// U w r q run d f | S id ms desc cmd | O id hex | F id desc cmd hide term hex | L hex | P ms cols
/// (desc/cmd: hex, `-` empty, `~` absent)
fn fancy_line(line: &str) -> String {
    let line = line.to_string();
    guarded(move || {
        let (v, rest) = line.split_once(' ').unwrap_or((&line, ""));
        let mut st = n2::verif::Fancy::new(v == "v=1");
        let opt = |s: &str| if s == "~" { None } else { Some(raw_string(unhex(s))) };
        let mut frames: Vec<String> = Vec::new();
        for op in rest.split(';') {
            let w = words(op);
            if w.is_empty() {
                continue;
            }
            match w[0] {
                "U" => {
                    let c: Vec<usize> = w[1..7].iter().map(|x| x.parse().unwrap()).collect();
                    st.update([c[0], c[1], c[2], c[3], c[4], c[5]]);
                }
                "S" => st.task_started(w[1].parse().unwrap(), w[2].parse().unwrap(), opt(w[3]), opt(w[4])),
                "O" => st.task_output(w[1].parse().unwrap(), unhex(w[2])),
                "F" => st.task_finished(
                    w[1].parse().unwrap(),
                    opt(w[2]),
                    opt(w[3]),
                    w[4] == "1",
                    w[5].parse().unwrap(),
                    unhex(w[6]),
                ),
                "L" => st.log(&raw_string(unhex(w[1]))),
                "P" => frames.push(hex(&st.print_progress(w[1].parse().unwrap(), w[2].parse().unwrap()))),
                _ => panic!("bad op"),
            }
        }
        format!(
            "ok frames={} pending={} ids={}",
            frames.join(","),
            hex(&st.pending()),
            st.task_ids().iter().map(|x| x.to_string()).collect::<Vec<_>>().join(",")
        )
    })
}

fn dedup_line(line: &str) -> String {
    // explicit id id id ...
    let w: Vec<usize> = words(line).iter().map(|x| x.parse().unwrap()).collect();
    guarded(move || {
        let (ids, explicit) = n2::verif::remove_duplicates(w[1..].to_vec(), w[0]);
        format!(
            "ok {} {}",
            explicit,
            ids.iter().map(|x| x.to_string()).collect::<Vec<_>>().join(" ")
        )
    })
}

/// <manifest-hex> <file-hex|-> [W <build> <hexhash> <dep-hex,dep-hex|->]...
fn db_line(line: &str) -> String {
    let w: Vec<String> = words(line).iter().map(|s| s.to_string()).collect();
    let dir = std::env::temp_dir().join(format!(
        "n2verif-db-{}-{}",
        std::process::id(),
        std::time::SystemTime::now()
            .duration_since(std::time::SystemTime::UNIX_EPOCH)
            .unwrap()
            .as_nanos()
    ));
    std::fs::create_dir_all(&dir).unwrap();
    let dbp = dir.join(".n2_db");
    if w[1] != "-x" {
        std::fs::write(&dbp, unhex(&w[1])).unwrap();
    }
    let manifest = unhex(&w[0]);
    let res = guarded({
        let dbp = dbp.clone();
        let w = w.clone();
        move || {
            let mut s = match n2::verif::Session::load_text("build.ninja", manifest) {
                Ok(s) => s,
                Err(e) => return format!("manifest-error {}", hex(e.as_bytes())),
            };
            if let Err(e) = s.open_db(&dbp) {
                return format!("err {}", hex(e.as_bytes()));
            }
            let after_open = std::fs::read(&dbp).unwrap();
            let loaded: Vec<String> = s
                .builds()
                .iter()
                .enumerate()
                .filter_map(|(i, b)| {
                    b.last_hash.map(|h| {
                        format!(
                            "{}:{:x}:{}",
                            i,
                            h,
                            b.discovered_ins
                                .iter()
                                .map(|d| hex(d.as_bytes()))
                                .collect::<Vec<_>>()
                                .join(",")
                        )
                    })
                })
                .collect();
            let mut i = 2;
            while i + 3 < w.len() + 0 && w[i] == "W" {
                let b: usize = w[i + 1].parse().unwrap();
                let h = u64::from_str_radix(&w[i + 2], 16).unwrap();
                let deps: Vec<String> = if w[i + 3] == "-" {
                    Vec::new()
                } else {
                    w[i + 3]
                        .split(',')
                        .map(|d| raw_string(unhex(d)))
                        .collect()
                };
                if let Err(e) = s.write_build(b, deps, h) {
                    return format!("werr {}", hex(e.as_bytes()));
                }
                i += 4;
            }
            s.close_db();
            let fin = std::fs::read(&dbp).unwrap();
            format!(
                "ok after_open={} loaded={} final={}",
                hex(&after_open),
                loaded.join(";"),
                hex(&fin)
            )
        }
    });
    let _ = std::fs::remove_dir_all(&dir);
    res
}

/// Run `f` with fd 1 redirected to a scratch file (n2 prints warnings with println!).
fn quiet_stdout<T>(f: impl FnOnce() -> T) -> T {
    use std::io::Write;
    use std::os::fd::AsRawFd;
    std::io::stdout().flush().ok();
    let null = std::fs::OpenOptions::new().write(true).open("/dev/null").unwrap();
    let saved = unsafe { libc::dup(1) };
    unsafe { libc::dup2(null.as_raw_fd(), 1) };
    let r = f();
    std::io::stdout().flush().ok();
    unsafe {
        libc::dup2(saved, 1);
        libc::close(saved);
    }
    r
}

fn opt_hex(o: &Option<String>) -> String {
    match o {
        None => "~".to_string(),
        Some(s) => hex(s.as_bytes()),
    }
}

thread_local! {
    static LOAD_DIR: std::cell::RefCell<Option<(std::path::PathBuf, std::collections::HashMap<String, Vec<u8>>)>> =
        std::cell::RefCell::new(None);
}

/// load <name-hex> <text-hex> [<name-hex> <content-hex>]...   (include files live in one scratch
/// dir per harness process; a file is rewritten only when its content changes)
fn load_line(line: &str) -> String {
    let w: Vec<String> = words(line).iter().map(|s| s.to_string()).collect();
    LOAD_DIR.with(|d| {
        let mut d = d.borrow_mut();
        if d.is_none() {
            let dir = std::env::temp_dir().join(format!(
                "n2verif-load-{}-{}",
                std::process::id(),
                std::time::SystemTime::now()
                    .duration_since(std::time::SystemTime::UNIX_EPOCH)
                    .unwrap()
                    .as_nanos()
            ));
            std::fs::create_dir_all(&dir).unwrap();
            std::env::set_current_dir(&dir).unwrap();
            *d = Some((dir, std::collections::HashMap::new()));
        }
        let (_, have) = d.as_mut().unwrap();
        let mut want: std::collections::HashMap<String, Vec<u8>> = std::collections::HashMap::new();
        let mut i = 2;
        while i + 1 < w.len() {
            want.insert(String::from_utf8_lossy(&unhex(&w[i])).into_owned(), unhex(&w[i + 1]));
            i += 2;
        }
        let stale: Vec<String> = have.keys().filter(|k| !want.contains_key(*k)).cloned().collect();
        for k in stale {
            let _ = std::fs::remove_file(&k);
            have.remove(&k);
        }
        for (name, content) in want {
            if have.get(&name) != Some(&content) {
                let p = std::path::Path::new(&name);
                if let Some(parent) = p.parent() {
                    if !parent.as_os_str().is_empty() {
                        let _ = std::fs::create_dir_all(parent);
                    }
                }
                let _ = std::fs::write(p, &content);
                have.insert(name, content);
            }
        }
    });
    let name = String::from_utf8_lossy(&unhex(&w[0])).into_owned();
    let text = unhex(&w[1]);
    let res = quiet_stdout(|| {
        guarded(move || match n2::verif::Session::load_text(&name, text) {
            Err(e) => format!("err {}", hex(e.as_bytes())),
            Ok(s) => {
                let files = s.files();
                let idx: std::collections::HashMap<&str, usize> =
                    files.iter().enumerate().map(|(i, f)| (f.name.as_str(), i)).collect();
                let ids = |v: &Vec<String>| {
                    v.iter()
                        .map(|n| idx[n.as_str()].to_string())
                        .collect::<Vec<_>>()
                        .join(",")
                };
                let mut parts: Vec<String> = Vec::new();
                for b in s.builds() {
                    let (f, l) = b.location.rsplit_once(':').unwrap();
                    parts.push(format!(
                        "B {}:{} ins={} e={} i={} o={} outs={} eo={} cmd={} desc={} depfile={} si={} rsp={} pool={} hs={} hp={}",
                        hex(f.as_bytes()), l, ids(&b.ins), b.explicit_ins, b.implicit_ins, b.order_only_ins,
                        ids(&b.outs), b.explicit_outs, opt_hex(&b.cmdline), opt_hex(&b.desc), opt_hex(&b.depfile),
                        if b.parse_showincludes { 1 } else { 0 },
                        match &b.rspfile { None => "~".to_string(), Some((p, c)) => format!("{}:{}", hex(p), hex(c.as_bytes())) },
                        opt_hex(&b.pool), if b.hide_success { 1 } else { 0 }, if b.hide_progress { 1 } else { 0 }
                    ));
                }
                for f in &files {
                    parts.push(format!(
                        "F {} in={} deps={}",
                        hex(f.name.as_bytes()),
                        f.input.map(|x| x.to_string()).unwrap_or_else(|| "~".to_string()),
                        f.dependents.iter().map(|x| x.to_string()).collect::<Vec<_>>().join(",")
                    ));
                }
                parts.push(format!(
                    "P {}",
                    s.pools().iter().map(|(n, d)| format!("{}={:x}", hex(n.as_bytes()), d)).collect::<Vec<_>>().join(",")
                ));
                parts.push(format!("D {}", ids(&s.defaults())));
                parts.push(format!("BD {}", opt_hex(&s.builddir())));
                format!("ok {}", parts.join(";"))
            }
        })
    });
    res
}

fn cleanup_load_dir() {
    LOAD_DIR.with(|d| {
        if let Some((dir, _)) = d.borrow_mut().take() {
            let _ = std::env::set_current_dir("/");
            let _ = std::fs::remove_dir_all(&dir);
        }
    });
}

/// n2 carries names as byte strings inside `String` (from_utf8_unchecked); so does the harness
pub fn raw_string(b: Vec<u8>) -> String {
    unsafe { String::from_utf8_unchecked(b) }
}

fn main() {
    if std::env::var_os("N2_VERIF_PARSE").is_some() {
        // child of the `cli` suite: report what n2 makes of this very command line
        let r = n2::run::verif_parse_args();
        let cwd = std::env::current_dir().map(|p| p.to_string_lossy().into_owned()).unwrap_or_default();
        println!("{} cwd={}", r, hex(cwd.as_bytes()));
        return;
    }
    let args: Vec<String> = std::env::args().collect();
    let suite = args.get(1).map(|s| s.as_str()).unwrap_or("");
    install_quiet_panic_hook();
    let f: fn(&str) -> String = match suite {
        "canon" => canon_line,
        "depfile" => depfile_line,
        "showincludes" => showincludes_line,
        "lastline" => lastline_line,
        "readdepfile" => readdepfile_line,
        "siphash" => siphash_line,
        "taskmsg" => taskmsg_line,
        "truncate" => truncate_line,
        "bar" => bar_line,
        "fancy" => fancy_line,
        "lossy" => lossy_line,
        "task" => task_line,
        "cli" => cli_line,
        "dumb" => dumb_line,
        "fs" => fs_line,
        "cols" => cols_line,
        "pathparts" => pathparts_line,
        "dedup" => dedup_line,
        "hist" => hist::hist_line,
        "db" => db_line,
        "load" => load_line,
        _ => {
            eprintln!("unknown suite {suite}");
            std::process::exit(2);
        }
    };
    let stdin = std::io::stdin();
    let stdout = std::io::stdout();
    let mut out = std::io::BufWriter::new(stdout.lock());
    for line in stdin.lock().lines() {
        let line = line.unwrap();
        let res = f(line.trim_end());
        writeln!(out, "{}", res).unwrap();
        // keep the stream line-exact so that an abort identifies the offending case
        out.flush().unwrap();
    }
    cleanup_load_dir();
}
